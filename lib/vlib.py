"""Shared glue for the checks: scratch builds, driver launches, trace merging, TLC runs
(design check / behaviour generation / trace validation), evidence, known findings.
Python here is glue only; every verdict comes from TLC evaluating the TLA+ specification
on implementation traces (or, for design checks, on the bounded model)."""
import os, sys, json, subprocess, shutil, time, re, hashlib, tempfile, threading, random
from concurrent.futures import ThreadPoolExecutor

VERIF = os.path.dirname(os.path.dirname(os.path.abspath(__file__)))
SPEC = os.path.join(VERIF, "spec")
SCRATCH = os.environ.get("VERIF_SCRATCH", "/var/tmp/pnc-verif")
MPIEXEC = ["mpiexec", "--allow-run-as-root", "--oversubscribe", "--bind-to", "none"]
TLA_CP = "/opt/veriftools/tla/tla2tools.jar:/opt/veriftools/tla/CommunityModules-deps.jar"

_t0 = time.time()
MAX_HANGS = 3      # hangs tolerated per launch group before the rest of the group is skipped
MAX_REJECTS = 30   # stop isolating rejections after this many per validation pass
TLC_PAR = 6        # trace validations running at once


def log(*a):
    print("[%6.1fs]" % (time.time() - _t0), *a, file=sys.stderr, flush=True)


class InfraError(Exception):
    pass


def build(variant="dbg"):
    # C19 replays the other properties' behaviours on the sanitizer-instrumented build
    if variant == "dbg" and os.environ.get("VERIF_FORCE_SAN") == "1":
        variant = "san"
    p = subprocess.run([os.path.join(VERIF, "bin/build.sh"), variant], capture_output=True, text=True)
    if p.returncode != 0:
        raise InfraError("build %s failed: %s" % (variant, p.stderr[-2000:]))
    return p.stdout.strip().splitlines()[-1]


def shim_path():
    so = os.path.join(SCRATCH, "pmpi_shim.so")
    src = os.path.join(VERIF, "harness/pmpi_shim.c")
    if not os.path.exists(so) or os.path.getmtime(so) < os.path.getmtime(src):
        os.makedirs(SCRATCH, exist_ok=True)
        tmp = so + ".%d" % os.getpid()
        p = subprocess.run(["mpicc", "-shared", "-fPIC", "-O1", "-o", tmp, src, "-ldl"], capture_output=True, text=True)
        if p.returncode != 0:
            raise InfraError("shim build failed: " + p.stderr)
        os.replace(tmp, so)
    return so


def workdir(tag):
    d = os.path.join(SCRATCH, "run.%d.%s" % (os.getpid(), tag))
    shutil.rmtree(d, ignore_errors=True)
    os.makedirs(d)
    return d


# ---------------------------------------------------------------- driver launches

def _launch(bld, script, outdir, np, env, timeout, shim=False, san=False):
    e = dict(os.environ)
    e.update({k: str(v) for k, v in (env or {}).items()})
    e.setdefault("PNETCDF_SAFE_MODE", "0")
    e["OMPI_MCA_btl_vader_single_copy_mechanism"] = "none"
    pre = []
    if os.path.basename(bld).startswith("san-"):
        san = True
    if san:
        asan = subprocess.run(["gcc", "-print-file-name=libasan.so"], capture_output=True, text=True).stdout.strip()
        ubsan = subprocess.run(["gcc", "-print-file-name=libubsan.so"], capture_output=True, text=True).stdout.strip()
        pre += [asan, ubsan]
        e["ASAN_OPTIONS"] = "detect_leaks=0:abort_on_error=0:exitcode=66:allocator_may_return_null=1:max_allocation_size_mb=2048:log_path=%s/asan" % outdir
        e["UBSAN_OPTIONS"] = "halt_on_error=1:print_stacktrace=1:print_summary=1:exitcode=67:log_path=%s/ubsan" % outdir
    if shim:
        pre.append(shim_path())
    cmd = list(MPIEXEC) + ["-n", str(np)]
    if pre:
        cmd += ["-x", "LD_PRELOAD=" + ":".join(pre)]
    for k in list(env or {}) + ["PNETCDF_SAFE_MODE", "ASAN_OPTIONS", "UBSAN_OPTIONS"]:
        if k in e:
            cmd += ["-x", k]
    cmd += [sys.executable, os.path.join(VERIF, "harness/pncdrv.py"), bld, script, outdir]
    try:
        p = subprocess.run(cmd, env=e, capture_output=True, text=True, timeout=timeout)
        return p.returncode, (p.stdout + p.stderr)[-4000:]
    except subprocess.TimeoutExpired as ex:
        subprocess.run(["pkill", "-f", outdir], capture_output=True)
        return 124, "launch timeout"


def merge(outdir, np):
    """-> {x: {k: [events by rank]}}"""
    res = {}
    for r in range(np):
        p = os.path.join(outdir, "trace.%d.ndjson" % r)
        if not os.path.exists(p):
            continue
        for line in open(p):
            line = line.strip()
            if not line:
                continue
            try:
                ev = json.loads(line)
            except ValueError:
                continue
            res.setdefault(ev["x"], {}).setdefault(ev["k"], []).append(ev)
    return res


def run_execs(bld, execs, np=1, env=None, shim=False, san=False, tag="b", per_step_timeout=20, keep=False):
    """Run executions [{x, steps, env?}] in one or more launches of np ranks.
    -> {x: {"status": ok|hang|crash|driver_error, "steps":[{k,e,rk:[...]}], "log": str}}"""
    out = {}
    remaining = list(execs)
    attempt = 0
    while remaining:
        attempt += 1
        wd = workdir("%s.%d" % (tag, attempt))
        script = os.path.join(wd, "script.ndjson")
        with open(script, "w") as fh:
            for ex in remaining:
                fh.write(json.dumps({"op": "begin", "x": ex["x"], "env": ex.get("env")}) + "\n")
                for st in ex["steps"]:
                    fh.write(json.dumps(st) + "\n")
        nsteps = sum(len(ex["steps"]) for ex in remaining)
        e2 = dict(env or {})
        e2["VERIF_STEP_TIMEOUT"] = str(per_step_timeout)
        rc, lg = _launch(bld, script, wd, np, e2, timeout=60 + nsteps * 0.5 + per_step_timeout * 2, shim=shim, san=san)
        m = merge(wd, np)
        nxt = []
        failed = False
        for i, ex in enumerate(remaining):
            x = ex["x"]
            evs = m.get(x, {})
            expect = {}
            for k, st in enumerate(ex["steps"], 1):
                rk = st.get("ranks")
                expect[k] = np if rk is None else len([r for r in rk if r < np])
            steps = []
            status = "ok"
            for k in sorted(expect):
                got = sorted(evs.get(k, []), key=lambda ev: ev["r"])
                if any(ev["e"] == "HANG" for ev in got):
                    status = "hang"
                    steps.append({"k": k, "e": "HANG", "rk": got})
                    break
                if len(got) < expect[k]:
                    status = "crash" if rc not in (0,) else "incomplete"
                    if got:
                        steps.append({"k": k, "e": got[0]["e"], "rk": got, "partial": True})
                    break
                if any(ev.get("rc") == "DRIVER_ERROR" for ev in got):
                    status = "driver_error"
                steps.append({"k": k, "e": got[0]["e"], "rk": got})
            if failed:
                nxt.append(ex)
                continue
            if status in ("hang", "crash", "incomplete"):
                # the launch died here: everything after it must be re-run
                failed = True
                sanlog = ""
                for f in os.listdir(wd):
                    if f.startswith(("asan", "ubsan")):
                        sanlog += open(os.path.join(wd, f), errors="replace").read()[:3000]
                out[x] = {"status": status, "steps": steps, "log": lg + sanlog, "rc": rc}
            else:
                out[x] = {"status": status, "steps": steps, "log": "", "rc": rc}
        if not keep:
            shutil.rmtree(wd, ignore_errors=True)
        remaining = nxt
        nh = sum(1 for r in out.values() if r["status"] == "hang")
        if nh >= MAX_HANGS and remaining:
            # every hang costs a full step timeout: after a few of them the rest of this launch group is skipped
            log("%s: %d hangs; %d executions of this group not run" % (tag, nh, len(remaining)))
            for ex in remaining:
                out[ex["x"]] = {"status": "skipped", "steps": [], "log": "", "rc": -1}
            break
        if attempt > len(execs) + 2:
            raise InfraError("run_execs does not converge")
    return out


def run_parallel(bld, jobs, par=None):
    """jobs: list of dict(execs, np, env, shim, san, tag) -> merged result dict"""
    res = {}
    if par is None:
        par = 12
    lock = threading.Lock()

    def one(j):
        r = run_execs(bld, j["execs"], j.get("np", 1), j.get("env"), j.get("shim", False), j.get("san", False),
                      j.get("tag", "j"), j.get("per_step_timeout", 20))
        with lock:
            res.update(r)
    with ThreadPoolExecutor(max_workers=par) as ex:
        list(ex.map(one, jobs))
    return res


def chunks(lst, n):
    for i in range(0, len(lst), n):
        yield lst[i:i + n]


# ---------------------------------------------------------------- TLC

def _tlc(args, env=None, timeout=1200, heap="8g", cwd=SPEC):
    e = dict(os.environ)
    e.update(env or {})
    cmd = ["java", "-XX:+UseParallelGC", "-Xss256m", "-Xmx" + heap, "-cp", TLA_CP, "tlc2.TLC", "-noGenerateSpecTE"] + args
    try:
        p = subprocess.run(cmd, cwd=cwd, env=e, capture_output=True, text=True, timeout=timeout)
        return p.returncode, p.stdout + p.stderr
    except subprocess.TimeoutExpired as ex:
        return 124, (ex.stdout or b"").decode(errors="replace") if isinstance(ex.stdout, bytes) else (ex.stdout or "")


def tlc_stats(out):
    st = {}
    m = re.findall(r"(\d+) states generated, (\d+) distinct states found", out)
    if m:
        st["generated"], st["distinct"] = int(m[-1][0]), int(m[-1][1])
    m = re.search(r"The depth of the complete state graph search is (\d+)", out)
    if m:
        st["depth"] = int(m.group(1))
    return st


def tlc_coverage(out):
    """per-action taken counts from -coverage output: {action: (distinct, generated)}"""
    cov = {}
    for m in re.finditer(r"<(\w+) line \d+, col \d+ to line \d+, col \d+ of module (\w+)>: (\d+):(\d+)", out):
        cov[m.group(1)] = (int(m.group(3)), int(m.group(4)))
    return cov


def _closure(module, seen=None):
    """local modules reachable through EXTENDS / INSTANCE"""
    seen = seen if seen is not None else []
    name = module[:-4] if module.endswith(".tla") else module
    p = os.path.join(SPEC, name + ".tla")
    if name in seen or not os.path.exists(p):
        return seen
    seen.append(name)
    txt = open(p).read()
    for m in re.findall(r"^\s*EXTENDS\s+(.*)$", txt, flags=re.M):
        for dep in re.split(r"[,\s]+", m.strip()):
            if dep:
                _closure(dep, seen)
    for dep in re.findall(r"INSTANCE\s+(\w+)", txt):
        _closure(dep, seen)
    return seen


def _spec_hash(module, cfg, extra):
    h = hashlib.sha1()
    for name in sorted(_closure(module)):
        h.update(open(os.path.join(SPEC, name + ".tla"), "rb").read())
    h.update(open(os.path.join(SPEC, cfg), "rb").read())
    h.update(repr((module, cfg, extra)).encode())
    return h.hexdigest()[:20]


def tlc_check(module, cfg, workers=8, timeout=1500, coverage=True, heap="8g", extra=None, env=None, cache=True):
    """exhaustive design check; returns dict(ok, stats, coverage, out).  The result depends only on the
    specification files, so it is cached by their hash (the implementation under /repo plays no part)."""
    cdir = os.path.join(SCRATCH, "mc-cache")
    os.makedirs(cdir, exist_ok=True)
    cf = os.path.join(cdir, _spec_hash(module, cfg, extra) + ".json")
    if cache and os.path.exists(cf) and not os.environ.get("VERIF_NO_MC_CACHE"):
        r = json.load(open(cf))
        r["cached"] = True
        return r
    r = _tlc_check(module, cfg, workers, timeout, coverage, heap, extra, env)
    if cache and r["ok"]:
        json.dump(r, open(cf, "w"))
    return r


def _tlc_check(module, cfg, workers=8, timeout=1500, coverage=True, heap="8g", extra=None, env=None):
    md = tempfile.mkdtemp(prefix="tlc-", dir=SCRATCH)
    args = ["-workers", str(workers), "-metadir", md, "-config", cfg]
    if coverage:
        args += ["-coverage", "1"]
    args += (extra or []) + [module]
    t = time.time()
    rc, out = _tlc(args, timeout=timeout, heap=heap, env=env)
    shutil.rmtree(md, ignore_errors=True)
    st = tlc_stats(out)
    ok = rc == 0 and "Model checking completed. No error has been found" in out
    return {"ok": ok, "rc": rc, "stats": st, "coverage": tlc_coverage(out), "out": out, "wall": time.time() - t}


def tlc_emit(module, cfg, workers=1, timeout=1500, simulate=None, depth=None, seed=None, heap="8g", env=None):
    """run a generation config; returns the JSON objects printed by the spec's Emit operator
    (lines of the form  "EMIT <json>" produced with PrintT)."""
    md = tempfile.mkdtemp(prefix="tlcg-", dir=SCRATCH)
    args = ["-workers", str(workers), "-metadir", md, "-config", cfg]
    if simulate:
        args += ["-simulate", "num=%d" % simulate]
        if depth:
            args += ["-depth", str(depth)]
        if seed is not None:
            args += ["-seed", str(seed)]
    args += [module]
    rc, out = _tlc(args, timeout=timeout, heap=heap, env=env)
    shutil.rmtree(md, ignore_errors=True)
    items = []
    for line in out.splitlines():
        line = line.strip()
        if line.startswith('"EMIT '):
            try:
                line = json.loads(line)   # PrintT prints a string quoted and escaped
            except ValueError:
                continue
        if line.startswith("EMIT "):
            try:
                items.append(json.loads(line[5:]))
            except ValueError:
                pass
    return {"rc": rc, "items": items, "stats": tlc_stats(out), "out": out}


def _san(o):
    """TLC's JSON module has no null: spell it as the string "null" """
    if o is None:
        return "null"
    if isinstance(o, bool):
        return o
    if isinstance(o, int) and abs(o) >= 1 << 30:
        return "i:%d" % o          # TLC integers are 32-bit
    if isinstance(o, float):
        if o != o:
            return "nan"
        if o in (float("inf"), float("-inf")):
            return "inf" if o > 0 else "-inf"
        if o == int(o) and abs(o) < 1 << 30:
            return int(o)
        return "f:" + repr(o)
    if isinstance(o, dict):
        return {k: _san(v) for k, v in o.items()}
    if isinstance(o, (list, tuple)):
        return [_san(v) for v in o]
    return o


def tlc_validate(module, cfg, trace_events, timeout=1500, heap="8g", keep_trace=None, env=None, header=None):
    """validate one concatenated trace (list of JSON-able events) with a Trace_* spec.
    The spec reads the file named by env TRACE and must define a POSTCONDITION that prints
    "TRACE_MATCHED <n>" (the number of trace lines explained).  -> (accepted, matched, out)"""
    md = tempfile.mkdtemp(prefix="tlcv-", dir=SCRATCH)
    tf = keep_trace or os.path.join(md, "trace.ndjson")
    if header is not None:
        trace_events = [dict(header(trace_events), e="Header")] + list(trace_events)
    with open(tf, "w") as fh:
        for ev in trace_events:
            fh.write(json.dumps(_san(ev), separators=(",", ":")) + "\n")
    e = {"TRACE": tf}
    e.update(env or {})
    rc, out = _tlc(["-workers", "1", "-metadir", md, "-config", cfg, module], env=e, timeout=timeout, heap=heap)
    shutil.rmtree(md, ignore_errors=True)
    m = re.findall(r"TRACE_MATCHED\D+(\d+)", out)
    matched = int(m[-1]) if m else -1
    accepted = rc == 0 and matched == len(trace_events)
    if "TLC threw an unexpected exception" in out or "Parsing or semantic analysis failed" in out or \
       ("Error:" in out and "is violated" not in out and not m and "Postcondition" not in out):
        open(os.path.join(SCRATCH, "last_tlc_error.txt"), "w").write(out)
        i = out.find("Error:")
        raise InfraError("TLC could not evaluate the trace spec %s (full output in %s/last_tlc_error.txt):\n%s" % (module, SCRATCH, out[i:i + 1500]))
    if rc != 0 and matched < 0:
        # invariant violated along the trace, or evaluation error: find how far we got
        m2 = re.findall(r"^State (\d+):", out, flags=re.M)
        if m2:
            matched = int(m2[-1]) - 1
    return accepted, matched, out, tlc_stats(out)


def validate_execs(module, cfg, traces, max_rejects=25, env=None, label="", header=None):
    """traces: list of (x, [events]) -- one per execution.  Concatenates them separated by
    Reset events, validates, and on a rejection isolates the offending execution and goes
    on with the rest so that every execution gets a verdict.
    -> (accepted_ids, rejected: [(x, index_in_exec, tlc_output_tail)], states)"""
    rejected = []
    accepted = []
    todo = list(traces)
    states = 0
    while todo:
        events = []
        owner = []
        for x, evs in todo:
            events.append({"e": "Reset", "x": x})
            owner.append((x, -1))
            for i, ev in enumerate(evs):
                events.append(ev)
                owner.append((x, i))
        ok, matched, out, st = tlc_validate(module, cfg, events, env=env, header=header)
        if header is not None:
            matched -= 1   # the header line
        states += st.get("distinct", 0)
        if ok:
            accepted += [x for x, _ in todo]
            break
        if matched < 0 or matched >= len(events):
            raise InfraError("trace validation of %s failed without a position:\n%s" % (label, out[-3000:]))
        badx, idx = owner[matched]
        pos = [i for i, (x, _) in enumerate(todo) if x == badx][0]
        accepted += [x for x, _ in todo[:pos]]
        fails = [ln for ln in out.splitlines() if "FAILED" in ln]
        # conjuncts that rejected the first unexplained line (trace line numbers are 1-based; +1 for a header)
        want = matched + 1 + (1 if header is not None else 0)
        mine = [ln for ln in fails if ln.rstrip().endswith(", %d>>" % want)]
        tail = "rejected by: " + "; ".join(mine[-6:]) + "\n" + out[-700:]
        rejected.append((badx, idx, tail))
        todo = todo[pos + 1:]
        if len(rejected) >= max_rejects:
            break
    return accepted, rejected, states


# ---------------------------------------------------------------- evidence, findings

def known_findings():
    p = os.path.join(VERIF, "known_findings.json")
    if not os.path.exists(p):
        return []
    return json.load(open(p)).get("findings", [])


def write_evidence(pid, tier, seed, level, coverage, wall, violations, assumptions=None):
    if os.environ.get("VERIF_REPO"):
        # an experiment against another source tree (bin/try_seed.sh): the evidence of /repo is left alone
        d = os.path.join(SCRATCH, "evidence-experiment")
        os.makedirs(d, exist_ok=True)
        with open(os.path.join(d, pid + ".json"), "w") as fh:
            json.dump({"property_id": pid, "tier": tier, "seed": int(seed), "violations": violations, "repo": os.environ["VERIF_REPO"]}, fh)
        return
    os.makedirs(os.path.join(VERIF, "evidence"), exist_ok=True)
    ev = {"property_id": pid, "tier": tier, "seed": int(seed), "level": level, "coverage": coverage,
          "assumptions": assumptions or [], "wall_s": round(wall, 1), "violations": violations}
    with open(os.path.join(VERIF, "evidence", pid + ".json"), "w") as fh:
        json.dump(ev, fh, indent=1, default=str)


def save_replay(pid, name, obj):
    d = os.path.join(VERIF, "replays", pid)
    os.makedirs(d, exist_ok=True)
    p = os.path.join(d, name + ".json")
    with open(p, "w") as fh:
        json.dump(obj, fh, indent=1, default=str)
    return p


# ---------------------------------------------------------------- standard flow of a check

def flat1(res):
    """single-rank executions: one trace event per step"""
    out = []
    for s in res["steps"]:
        e = s["rk"][0]
        out.append({"e": s["e"], "a": e.get("a", {}), "rc": e.get("rc", "NONE"), "out": e.get("out", {}), "obs": e.get("obs", {})})
    return out


def flatn(res):
    """multi-rank executions: one trace event per step with the per-rank records in rk"""
    out = []
    for s in res["steps"]:
        out.append({"e": s["e"], "k": s["k"],
                    "rk": [{"r": e["r"], "a": e.get("a", {}), "rc": e.get("rc", "NONE"), "out": e.get("out", {}), "obs": e.get("obs", {})} for e in s["rk"]]})
    return out


def run_validate(bld, execs, module, cfg, np=1, shim=False, san=False, env=None, par=12, chunk=1500, to_events=flat1,
                 tag="rv", per_launch=None, tlc_env=None, per_step_timeout=20, header=None):
    chunk = min(chunk, 200)
    """run executions on the library and validate their traces with TLC.
    execs may carry their own "np"/"env"/"shim" (grouped into separate launches).
    -> (results, accepted ids, rejected [(x, idx, tlc tail)], trace states)"""
    groups = {}
    for ex in execs:
        key = (ex.get("np", np), json.dumps(ex.get("lenv", env) or {}, sort_keys=True), ex.get("shim", shim))
        groups.setdefault(key, []).append(ex)
    jobs = []
    for (n, e, sh), lst in groups.items():
        size = per_launch or max(1, min(400, len(lst) // max(1, par // max(1, n)) + 1))
        for i, ch in enumerate(chunks(lst, size)):
            jobs.append({"execs": ch, "np": n, "env": json.loads(e), "shim": sh, "san": san,
                         "tag": "%s_%d_%d" % (tag, len(jobs), i), "per_step_timeout": per_step_timeout})
    log("%s: running %d executions in %d launches" % (tag, len(execs), len(jobs)))
    res = run_parallel(bld, jobs, par=max(1, par // max(1, max(j["np"] for j in jobs))) if jobs else 1)
    log("%s: executions done (%s)" % (tag, ", ".join("%s=%d" % (k, sum(1 for r in res.values() if r["status"] == k)) for k in sorted({r["status"] for r in res.values()}))))
    traces = []
    for ex in execs:
        r = res[ex["x"]]
        if r["status"] == "skipped":
            continue
        ev = to_events(r)
        if r["status"] in ("hang", "crash", "incomplete"):
            ev.append({"e": "ABNORMAL", "a": {"status": r["status"]}, "rc": r["status"], "out": {}, "obs": {},
                       "rk": [{"r": 0, "a": {"status": r["status"]}, "rc": r["status"], "out": {}, "obs": {}}]})
        if r["status"] == "driver_error":
            bad = [s for s in r["steps"] if any(e.get("rc") == "DRIVER_ERROR" for e in s["rk"])]
            raise InfraError("driver error in %s: %s" % (ex["x"], json.dumps(bad[0])[:3000]))
        r["events"] = ev
        traces.append((ex["x"], ev))
    acc, rej, states = validate_traces(traces, module, cfg, chunk, tlc_env, header, tag)
    log("%s: validated: %d accepted, %d rejected" % (tag, len(acc), len(rej)))
    return res, acc, rej, states


def validate_traces(traces, module, cfg, chunk=200, tlc_env=None, header=None, tag="v", max_rejects=None):
    """validate [(x, events)] in parallel chunks; isolates up to max_rejects rejections"""
    acc, rej, states = [], [], 0
    lock = threading.Lock()
    if max_rejects is None:
        max_rejects = MAX_REJECTS
    budget = [max_rejects]

    def one(ch):
        with lock:
            b = budget[0]
        if b <= 0:
            return [], [], 0, len(ch)
        a, r, st = validate_execs(module, cfg, ch, label=module, env=tlc_env, header=header, max_rejects=max(1, min(b, 6)))
        with lock:
            budget[0] -= len(r)
        return a, r, st, len(ch) - len(a) - len(r)
    unexamined = 0
    with ThreadPoolExecutor(max_workers=TLC_PAR) as pool:
        for a, r, st, un in pool.map(one, list(chunks(traces, chunk))):
            acc += a
            rej += r
            states += st
            unexamined += un
    if unexamined:
        log("%s: %d executions left unexamined after %d rejections (budget %d)" % (tag, unexamined, len(rej), max_rejects))
    return acc, rej, states


def confirm(bld, execs, rej, module, cfg, **kw):
    """a rejection counts only if an immediate re-run of the same execution is rejected again"""
    if not rej:
        return []
    byx = {e["x"]: e for e in execs}
    again = [byx[x] for x, _, _ in rej]
    kw = dict(kw)
    kw["par"] = 4
    kw["tag"] = "confirm"
    kw["chunk"] = 1          # one validation per execution: every re-run gets its own verdict
    res2, acc2, rej2, _ = run_validate(bld, again, module, cfg, **kw)
    rej2x = {x: (i, t) for x, i, t in rej2}
    out = []
    for x, idx, tail in rej:
        if x in rej2x:
            out.append((x, idx, tail, res2[x]))
        else:
            log("rejection of %s not reproduced on re-run: dropped" % x)
    return out
