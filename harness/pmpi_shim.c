/* PMPI shim (LD_PRELOADed into the driver): records the MPI collective and MPI-IO calls
 * made by the library, keeps create/free balances of MPI objects, and injects MPI-IO
 * failures.  The driver's own MPI calls use the PMPI_ names and are therefore not seen
 * here; every MPI_ call that reaches this file was made by libpnetcdf.
 *
 * Injection: the k-th MPI-IO data-transfer call (counted from the moment of arming) is
 * performed with count 0 -- so a collective transfer still matches on all ranks and the
 * injected failure itself can never desynchronise them -- and returns the requested
 * MPI error class as its error code.
 */
#define _GNU_SOURCE
#include <mpi.h>
#include <stdio.h>
#include <string.h>
#include <stdlib.h>
#include <dlfcn.h>

int verif_shim_present = 1;

#define LOGSZ (1 << 16)
static char logbuf[LOGSZ];
static int loglen = 0, logdropped = 0;
static long long bal_type = 0, bal_info = 0, bal_comm = 0, bal_file = 0;
static int inj_k = -1, inj_cls = 0, inj_rank = -1, io_count = 0, inj_fired = 0;
static int my_rank = -1;

static const char **site_ptr(void)
{
    static const char **p = NULL;
    static int tried = 0;
    if (!tried) { p = (const char **)dlsym(RTLD_DEFAULT, "pnc_verif_site"); tried = 1; }
    return p;
}

static void rec(const char *name, int n, int root, int isio)
{
    const char **s = site_ptr();
    const char *f = "", *fn = "";
    char tmp[512];
    int k;
    if (s != NULL && s[0] != NULL) {
        f = strrchr(s[0], '/'); f = f ? f + 1 : s[0];
        fn = s[1] ? s[1] : "";
        /* the tag is only meaningful if the hook named this MPI routine */
        if (s[2] == NULL || strcmp(s[2], name) != 0) { f = "?"; fn = "?"; }
    }
    k = snprintf(tmp, sizeof(tmp), "%s[\"%s\",%d,%d,\"%s:%s\",%d]", loglen ? "," : "", name + 4, n, root, f, fn, isio);
    if (loglen + k + 2 < LOGSZ) { memcpy(logbuf + loglen, tmp, k); loglen += k; }
    else logdropped++;
}

void verif_shim_drain(char *out, int len)
{
    int n = loglen < len - 3 ? loglen : len - 3;
    out[0] = '[';
    memcpy(out + 1, logbuf, n);
    out[n + 1] = ']';
    out[n + 2] = 0;
    if (n < loglen) { out[1] = 0; strcpy(out, "[\"OVERFLOW\"]"); }
    loglen = 0;
}

void verif_shim_balance(long long *b)
{
    b[0] = bal_type; b[1] = bal_info; b[2] = bal_comm; b[3] = bal_file;
    b[4] = io_count; b[5] = inj_fired; b[6] = logdropped;
}

void verif_shim_reset_balance(void) { bal_type = bal_info = bal_comm = bal_file = 0; }

/* arm: fail the kth (1-based) data transfer from now on rank `rank` (-1: every rank) */
void verif_shim_inject(int kth, int cls, int rank)
{
    inj_k = kth; inj_cls = cls; inj_rank = rank; io_count = 0; inj_fired = 0;
    if (my_rank < 0) PMPI_Comm_rank(MPI_COMM_WORLD, &my_rank);
}

static int fire(void)
{
    io_count++;
    if (inj_k > 0 && io_count == inj_k && (inj_rank < 0 || inj_rank == my_rank)) { inj_fired++; return 1; }
    return 0;
}

static int csize(MPI_Comm c) { int n = -1; PMPI_Comm_size(c, &n); return n; }

/* ---------------------------------------------------------------- collectives */
int MPI_Bcast(void *b, int c, MPI_Datatype t, int root, MPI_Comm comm)
{ rec("MPI_Bcast", csize(comm), root, 0); return PMPI_Bcast(b, c, t, root, comm); }
int MPI_Allreduce(const void *s, void *r, int c, MPI_Datatype t, MPI_Op op, MPI_Comm comm)
{ rec("MPI_Allreduce", csize(comm), -1, 0); return PMPI_Allreduce(s, r, c, t, op, comm); }
int MPI_Reduce(const void *s, void *r, int c, MPI_Datatype t, MPI_Op op, int root, MPI_Comm comm)
{ rec("MPI_Reduce", csize(comm), root, 0); return PMPI_Reduce(s, r, c, t, op, root, comm); }
int MPI_Barrier(MPI_Comm comm)
{ rec("MPI_Barrier", csize(comm), -1, 0); return PMPI_Barrier(comm); }
int MPI_Allgather(const void *s, int sc, MPI_Datatype st, void *r, int rc, MPI_Datatype rt, MPI_Comm comm)
{ rec("MPI_Allgather", csize(comm), -1, 0); return PMPI_Allgather(s, sc, st, r, rc, rt, comm); }
int MPI_Gather(const void *s, int sc, MPI_Datatype st, void *r, int rc, MPI_Datatype rt, int root, MPI_Comm comm)
{ rec("MPI_Gather", csize(comm), root, 0); return PMPI_Gather(s, sc, st, r, rc, rt, root, comm); }
int MPI_Gatherv(const void *s, int sc, MPI_Datatype st, void *r, const int *rc, const int *d, MPI_Datatype rt, int root, MPI_Comm comm)
{ rec("MPI_Gatherv", csize(comm), root, 0); return PMPI_Gatherv(s, sc, st, r, rc, d, rt, root, comm); }
int MPI_Alltoall(const void *s, int sc, MPI_Datatype st, void *r, int rc, MPI_Datatype rt, MPI_Comm comm)
{ rec("MPI_Alltoall", csize(comm), -1, 0); return PMPI_Alltoall(s, sc, st, r, rc, rt, comm); }

/* ---------------------------------------------------------------- communicators */
int MPI_Comm_dup(MPI_Comm c, MPI_Comm *n)
{ int e; rec("MPI_Comm_dup", csize(c), -1, 0); e = PMPI_Comm_dup(c, n); if (e == MPI_SUCCESS) bal_comm++; return e; }
int MPI_Comm_split(MPI_Comm c, int color, int key, MPI_Comm *n)
{ int e; rec("MPI_Comm_split", csize(c), -1, 0); e = PMPI_Comm_split(c, color, key, n); if (e == MPI_SUCCESS && *n != MPI_COMM_NULL) bal_comm++; return e; }
int MPI_Comm_split_type(MPI_Comm c, int st, int key, MPI_Info info, MPI_Comm *n)
{ int e; rec("MPI_Comm_split_type", csize(c), -1, 0); e = PMPI_Comm_split_type(c, st, key, info, n); if (e == MPI_SUCCESS && *n != MPI_COMM_NULL) bal_comm++; return e; }
int MPI_Comm_free(MPI_Comm *c)
{ int e; rec("MPI_Comm_free", csize(*c), -1, 0); e = PMPI_Comm_free(c); if (e == MPI_SUCCESS) bal_comm--; return e; }

/* ---------------------------------------------------------------- info objects */
int MPI_Info_create(MPI_Info *i) { int e = PMPI_Info_create(i); if (e == MPI_SUCCESS) bal_info++; return e; }
int MPI_Info_dup(MPI_Info i, MPI_Info *n) { int e = PMPI_Info_dup(i, n); if (e == MPI_SUCCESS) bal_info++; return e; }
int MPI_Info_free(MPI_Info *i) { int e = PMPI_Info_free(i); if (e == MPI_SUCCESS) bal_info--; return e; }
int MPI_File_get_info(MPI_File fh, MPI_Info *i) { int e = PMPI_File_get_info(fh, i); if (e == MPI_SUCCESS) bal_info++; return e; }

/* ---------------------------------------------------------------- datatypes */
#define TYPE_CTOR(call) { int e = call; if (e == MPI_SUCCESS) bal_type++; return e; }
int MPI_Type_contiguous(int c, MPI_Datatype o, MPI_Datatype *n) TYPE_CTOR(PMPI_Type_contiguous(c, o, n))
int MPI_Type_vector(int c, int b, int s, MPI_Datatype o, MPI_Datatype *n) TYPE_CTOR(PMPI_Type_vector(c, b, s, o, n))
int MPI_Type_create_hvector(int c, int b, MPI_Aint s, MPI_Datatype o, MPI_Datatype *n) TYPE_CTOR(PMPI_Type_create_hvector(c, b, s, o, n))
int MPI_Type_create_hindexed(int c, const int *b, const MPI_Aint *d, MPI_Datatype o, MPI_Datatype *n) TYPE_CTOR(PMPI_Type_create_hindexed(c, b, d, o, n))
int MPI_Type_indexed(int c, const int *b, const int *d, MPI_Datatype o, MPI_Datatype *n) TYPE_CTOR(PMPI_Type_indexed(c, b, d, o, n))
int MPI_Type_create_struct(int c, const int *b, const MPI_Aint *d, const MPI_Datatype *t, MPI_Datatype *n) TYPE_CTOR(PMPI_Type_create_struct(c, b, d, t, n))
int MPI_Type_create_subarray(int nd, const int *sz, const int *ss, const int *st, int o, MPI_Datatype t, MPI_Datatype *n) TYPE_CTOR(PMPI_Type_create_subarray(nd, sz, ss, st, o, t, n))
int MPI_Type_create_resized(MPI_Datatype o, MPI_Aint lb, MPI_Aint ext, MPI_Datatype *n) TYPE_CTOR(PMPI_Type_create_resized(o, lb, ext, n))
int MPI_Type_dup(MPI_Datatype o, MPI_Datatype *n) TYPE_CTOR(PMPI_Type_dup(o, n))
int MPI_Type_free(MPI_Datatype *t) { int e = PMPI_Type_free(t); if (e == MPI_SUCCESS) bal_type--; return e; }

/* ---------------------------------------------------------------- files */
int MPI_File_open(MPI_Comm c, const char *fn, int am, MPI_Info i, MPI_File *fh)
{ int e; rec("MPI_File_open", csize(c), -1, 0); e = PMPI_File_open(c, fn, am, i, fh); if (e == MPI_SUCCESS) bal_file++; return e; }
int MPI_File_close(MPI_File *fh)
{ int e; rec("MPI_File_close", -2, -1, 0); e = PMPI_File_close(fh); if (e == MPI_SUCCESS) bal_file--; return e; }
int MPI_File_set_view(MPI_File fh, MPI_Offset d, MPI_Datatype e_, MPI_Datatype f, const char *r, MPI_Info i)
{ rec("MPI_File_set_view", -2, -1, 0); return PMPI_File_set_view(fh, d, e_, f, r, i); }
int MPI_File_sync(MPI_File fh) { rec("MPI_File_sync", -2, -1, 0); return PMPI_File_sync(fh); }
int MPI_File_set_size(MPI_File fh, MPI_Offset s) { rec("MPI_File_set_size", -2, -1, 0); return PMPI_File_set_size(fh, s); }
int MPI_File_delete(const char *fn, MPI_Info i) { rec("MPI_File_delete", -3, -1, 0); return PMPI_File_delete(fn, i); }

/* data transfers: isio = 1 (independent) or 2 (collective) */
#define XFER(NAME, COLL, CALL0, CALL) { int e; rec(#NAME, -2, -1, COLL); \
    if (fire()) { e = CALL0; return inj_cls; } e = CALL; return e; }
int MPI_File_write_at_all(MPI_File fh, MPI_Offset o, const void *b, int c, MPI_Datatype t, MPI_Status *s)
XFER(MPI_File_write_at_all, 2, PMPI_File_write_at_all(fh, o, b, 0, t, s), PMPI_File_write_at_all(fh, o, b, c, t, s))
int MPI_File_write_at(MPI_File fh, MPI_Offset o, const void *b, int c, MPI_Datatype t, MPI_Status *s)
XFER(MPI_File_write_at, 1, PMPI_File_write_at(fh, o, b, 0, t, s), PMPI_File_write_at(fh, o, b, c, t, s))
int MPI_File_write_all(MPI_File fh, const void *b, int c, MPI_Datatype t, MPI_Status *s)
XFER(MPI_File_write_all, 2, PMPI_File_write_all(fh, b, 0, t, s), PMPI_File_write_all(fh, b, c, t, s))
int MPI_File_write(MPI_File fh, const void *b, int c, MPI_Datatype t, MPI_Status *s)
XFER(MPI_File_write, 1, PMPI_File_write(fh, b, 0, t, s), PMPI_File_write(fh, b, c, t, s))
int MPI_File_read_at_all(MPI_File fh, MPI_Offset o, void *b, int c, MPI_Datatype t, MPI_Status *s)
XFER(MPI_File_read_at_all, 2, PMPI_File_read_at_all(fh, o, b, 0, t, s), PMPI_File_read_at_all(fh, o, b, c, t, s))
int MPI_File_read_at(MPI_File fh, MPI_Offset o, void *b, int c, MPI_Datatype t, MPI_Status *s)
XFER(MPI_File_read_at, 1, PMPI_File_read_at(fh, o, b, 0, t, s), PMPI_File_read_at(fh, o, b, c, t, s))
int MPI_File_read_all(MPI_File fh, void *b, int c, MPI_Datatype t, MPI_Status *s)
XFER(MPI_File_read_all, 2, PMPI_File_read_all(fh, b, 0, t, s), PMPI_File_read_all(fh, b, c, t, s))
int MPI_File_read(MPI_File fh, void *b, int c, MPI_Datatype t, MPI_Status *s)
XFER(MPI_File_read, 1, PMPI_File_read(fh, b, 0, t, s), PMPI_File_read(fh, b, c, t, s))

/* error classes by name (values differ between MPI implementations) */
int verif_shim_errclass(const char *n)
{
#define EC(x) if (strcmp(n, #x) == 0) return x;
    EC(MPI_ERR_IO) EC(MPI_ERR_NO_SPACE) EC(MPI_ERR_QUOTA) EC(MPI_ERR_ACCESS) EC(MPI_ERR_READ_ONLY)
    EC(MPI_ERR_FILE) EC(MPI_ERR_NO_SUCH_FILE) EC(MPI_ERR_FILE_EXISTS) EC(MPI_ERR_BAD_FILE) EC(MPI_ERR_AMODE)
    EC(MPI_ERR_FILE_IN_USE) EC(MPI_ERR_NOT_SAME) EC(MPI_ERR_OTHER) EC(MPI_ERR_UNSUPPORTED_DATAREP)
    EC(MPI_ERR_UNSUPPORTED_OPERATION) EC(MPI_ERR_CONVERSION) EC(MPI_ERR_DUP_DATAREP)
    return -1;
}
