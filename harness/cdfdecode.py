#!/usr/bin/env python3
"""Independent decoder / encoder of classic netCDF files (CDF-1, CDF-2, CDF-5).

Written from the file-format grammar only (NetCDF User's Guide appendix "File Format
Specification" and the CDF-5 extension); it shares no code with PnetCDF.  It is the
*projection function* of the conformance step: bytes on disk -> abstract file
(schema, layout, data) that the TLA+ trace specifications talk about.

decode(bytes) -> dict
  fmt        1 | 2 | 5
  numrecs    int
  dims       [ {name, len} ]                      len 0 == unlimited
  gatts      [ {name, type, nelems, vals} ]
  vars       [ {name, dimids, atts, type, vsize, begin, shape, isrec, elsz, nelems_per_rec} ]
  xsz        length in bytes of the header as encoded
  recsize    computed record size (sum of the record variables' padded sizes, or the
             unpadded size when there is exactly one record variable)
  problems   list of strings: violations of the grammar that do not stop decoding

encode(abstract, ...) builds a byte string; used to produce files PnetCDF never writes.
"""
import struct, sys, json

NC_BYTE, NC_CHAR, NC_SHORT, NC_INT, NC_FLOAT, NC_DOUBLE, NC_UBYTE, NC_USHORT, NC_UINT, NC_INT64, NC_UINT64 = range(1, 12)
TYPE_NAME = {1: "byte", 2: "char", 3: "short", 4: "int", 5: "float", 6: "double",
             7: "ubyte", 8: "ushort", 9: "uint", 10: "int64", 11: "uint64"}
TYPE_ID = {v: k for k, v in TYPE_NAME.items()}
TYPE_SIZE = {1: 1, 2: 1, 3: 2, 4: 4, 5: 4, 6: 8, 7: 1, 8: 2, 9: 4, 10: 8, 11: 8}
TYPE_FMT = {1: "b", 2: "B", 3: "h", 4: "i", 5: "f", 6: "d", 7: "B", 8: "H", 9: "I", 10: "q", 11: "Q"}
NC_DIMENSION, NC_VARIABLE, NC_ATTRIBUTE = 0x0A, 0x0B, 0x0C


class FormatError(Exception):
    pass


def pad4(n):
    return (n + 3) // 4 * 4


class _Rd:
    def __init__(self, b, fmt=None):
        self.b = b
        self.p = 0
        self.fmt = fmt

    def need(self, n):
        if self.p + n > len(self.b):
            raise FormatError("truncated header at byte %d (+%d)" % (self.p, n))

    def u32(self):
        self.need(4)
        v = struct.unpack_from(">I", self.b, self.p)[0]
        self.p += 4
        return v

    def u64(self):
        self.need(8)
        v = struct.unpack_from(">Q", self.b, self.p)[0]
        self.p += 8
        return v

    def nonneg(self):  # NON_NEG: 4 bytes (CDF-1/2) or 8 bytes (CDF-5)
        return self.u64() if self.fmt == 5 else self.u32()

    def raw(self, n):
        self.need(n)
        v = self.b[self.p:self.p + n]
        self.p += n
        return v


def _name(r, problems):
    n = r.nonneg()
    if n > 1 << 20:
        raise FormatError("name length %d" % n)
    s = r.raw(n)
    padn = pad4(n) - n
    padb = r.raw(padn)
    if any(padb):
        problems.append("nonzero name padding at %d" % (r.p - padn))
    try:
        return s.decode("utf-8")
    except UnicodeDecodeError:
        problems.append("name not utf-8")
        return s.decode("latin-1")


def _values(r, t, n, problems):
    if t not in TYPE_SIZE:
        raise FormatError("bad nc_type %d" % t)
    if r.fmt != 5 and t > NC_DOUBLE:
        raise FormatError("type %d not allowed in CDF-%d" % (t, r.fmt))
    nb = n * TYPE_SIZE[t]
    if nb > len(r.b):
        raise FormatError("attribute too long")
    raw = r.raw(nb)
    padn = pad4(nb) - nb
    padb = r.raw(padn)
    if any(padb):
        problems.append("nonzero attribute padding at %d" % (r.p - padn))
    if t == NC_CHAR:
        return raw.decode("latin-1")
    return list(struct.unpack(">%d%s" % (n, TYPE_FMT[t]), raw))


def _attlist(r, problems):
    tag = r.u32()
    n = r.nonneg()
    if tag == 0:
        if n != 0:
            raise FormatError("ABSENT tag with nelems %d" % n)
        return []
    if tag != NC_ATTRIBUTE:
        raise FormatError("expected NC_ATTRIBUTE, got %#x at %d" % (tag, r.p))
    out = []
    for _ in range(n):
        name = _name(r, problems)
        t = r.u32()
        ne = r.nonneg()
        vals = _values(r, t, ne, problems)
        out.append({"name": name, "type": t, "nelems": ne, "vals": vals})
    return out


def decode_header(b):
    problems = []
    if len(b) < 4 or b[:3] != b"CDF":
        raise FormatError("bad magic")
    fmt = b[3]
    if fmt not in (1, 2, 5):
        raise FormatError("bad version %d" % fmt)
    r = _Rd(b, fmt)
    r.p = 4
    numrecs = r.nonneg()
    # dim list
    tag = r.u32()
    n = r.nonneg()
    dims = []
    if tag == 0:
        if n != 0:
            raise FormatError("ABSENT dim tag with nelems")
    elif tag != NC_DIMENSION:
        raise FormatError("expected NC_DIMENSION got %#x" % tag)
    else:
        for _ in range(n):
            nm = _name(r, problems)
            ln = r.nonneg()
            dims.append({"name": nm, "len": ln})
    gatts = _attlist(r, problems)
    tag = r.u32()
    n = r.nonneg()
    vars_ = []
    if tag == 0:
        if n != 0:
            raise FormatError("ABSENT var tag with nelems")
    elif tag != NC_VARIABLE:
        raise FormatError("expected NC_VARIABLE got %#x" % tag)
    else:
        for _ in range(n):
            nm = _name(r, problems)
            nd = r.nonneg()
            if nd > 1 << 16:
                raise FormatError("ndims %d" % nd)
            dimids = [r.nonneg() for _ in range(nd)]
            atts = _attlist(r, problems)
            t = r.u32()
            if t not in TYPE_SIZE:
                raise FormatError("bad var type %d" % t)
            vsize = r.nonneg()
            begin = r.u32() if fmt == 1 else r.u64()
            vars_.append({"name": nm, "dimids": dimids, "atts": atts, "type": t,
                          "vsize": vsize, "begin": begin})
    xsz = r.p
    unlim = [i for i, d in enumerate(dims) if d["len"] == 0]
    if len(unlim) > 1:
        problems.append("more than one unlimited dimension")
    for v in vars_:
        for d in v["dimids"]:
            if d >= len(dims):
                raise FormatError("dimid %d out of range" % d)
        shape = [dims[d]["len"] for d in v["dimids"]]
        v["isrec"] = bool(shape) and shape[0] == 0
        for d in shape[1:]:
            if d == 0:
                problems.append("unlimited dimension not first in var %s" % v["name"])
        v["shape"] = shape
        v["elsz"] = TYPE_SIZE[v["type"]]
        per = 1
        for d in (shape[1:] if v["isrec"] else shape):
            per *= d
        v["nelems_per_rec"] = per  # elements per record (record var) or in total (fixed)
        v["len"] = pad4(per * v["elsz"])
    recvars = [v for v in vars_ if v["isrec"]]
    if len(recvars) == 1:
        recsize = recvars[0]["nelems_per_rec"] * recvars[0]["elsz"]
    else:
        recsize = sum(v["len"] for v in recvars)
    return {"fmt": fmt, "numrecs": numrecs, "dims": dims, "gatts": gatts, "vars": vars_,
            "xsz": xsz, "recsize": recsize, "problems": problems}


def read_var(b, h, vi, nrecs=None, strict=False):
    """All values of variable vi in row-major order (records outermost) from bytes b.
    Bytes beyond the end of the file read as None (never written)."""
    v = h["vars"][vi]
    t = v["type"]
    es = v["elsz"]
    per = v["nelems_per_rec"]
    out = []

    def chunk(off, n):
        raw = b[off:off + n * es]
        k = len(raw) // es
        vals = list(struct.unpack(">%d%s" % (k, TYPE_FMT[t]), raw[:k * es])) if k else []
        return vals + [None] * (n - k)

    if v["isrec"]:
        nr = h["numrecs"] if nrecs is None else nrecs
        for i in range(nr):
            out += chunk(v["begin"] + i * h["recsize"], per)
    else:
        out = chunk(v["begin"], per)
    return out


def decode(b, data=True):
    h = decode_header(b)
    if data:
        for i, v in enumerate(h["vars"]):
            v["data"] = read_var(b, h, i)
    return h


def layout_problems(h, filelen=None):
    """Violations of the layout rules of the format specification (used by C03/C20)."""
    pr = []
    fixed = [v for v in h["vars"] if not v["isrec"]]
    rec = [v for v in h["vars"] if v["isrec"]]
    end = h["xsz"]
    for v in fixed:
        if v["begin"] < end:
            pr.append("fixed var %s begin %d < previous end %d" % (v["name"], v["begin"], end))
        if v["begin"] % 4:
            pr.append("var %s begin %d not 4-byte aligned" % (v["name"], v["begin"]))
        end = v["begin"] + v["len"]
    for v in rec:
        if v["begin"] < end:
            pr.append("record var %s begin %d < previous end %d" % (v["name"], v["begin"], end))
        if v["begin"] % 4:
            pr.append("var %s begin %d not 4-byte aligned" % (v["name"], v["begin"]))
        end = v["begin"] + (v["len"] if len(rec) > 1 else v["nelems_per_rec"] * v["elsz"])
    lim = (1 << 32) - 1
    for v in h["vars"]:
        exp = v["len"]
        if h["fmt"] != 5 and exp > lim:
            exp = lim
        if v["vsize"] != exp:
            pr.append("var %s vsize %d != %d" % (v["name"], v["vsize"], exp))
    return pr


# ------------------------------------------------------------------ encoder

def _enc_nonneg(fmt, v):
    return struct.pack(">Q", v) if fmt == 5 else struct.pack(">I", v)


def _enc_name(fmt, s, padbyte=0):
    b = s.encode("utf-8") if isinstance(s, str) else s
    return _enc_nonneg(fmt, len(b)) + b + bytes([padbyte]) * (pad4(len(b)) - len(b))


def _enc_vals(t, vals):
    if t == NC_CHAR:
        raw = vals.encode("latin-1") if isinstance(vals, str) else bytes(vals)
    else:
        raw = struct.pack(">%d%s" % (len(vals), TYPE_FMT[t]), *vals)
    return raw + b"\0" * (pad4(len(raw)) - len(raw))


def _enc_attlist(fmt, atts):
    if not atts:
        return struct.pack(">I", 0) + _enc_nonneg(fmt, 0)
    o = struct.pack(">I", NC_ATTRIBUTE) + _enc_nonneg(fmt, len(atts))
    for a in atts:
        n = len(a["vals"])
        o += _enc_name(fmt, a["name"]) + struct.pack(">I", a["type"]) + _enc_nonneg(fmt, n) + _enc_vals(a["type"], a["vals"])
    return o


def encode_header(h, begins, vsizes=None):
    fmt = h["fmt"]
    o = b"CDF" + bytes([fmt]) + _enc_nonneg(fmt, h["numrecs"])
    if h["dims"]:
        o += struct.pack(">I", NC_DIMENSION) + _enc_nonneg(fmt, len(h["dims"]))
        for d in h["dims"]:
            o += _enc_name(fmt, d["name"]) + _enc_nonneg(fmt, d["len"])
    else:
        o += struct.pack(">I", 0) + _enc_nonneg(fmt, 0)
    o += _enc_attlist(fmt, h.get("gatts", []))
    if h["vars"]:
        o += struct.pack(">I", NC_VARIABLE) + _enc_nonneg(fmt, len(h["vars"]))
        for i, v in enumerate(h["vars"]):
            o += _enc_name(fmt, v["name"]) + _enc_nonneg(fmt, len(v["dimids"]))
            for d in v["dimids"]:
                o += _enc_nonneg(fmt, d)
            o += _enc_attlist(fmt, v.get("atts", []))
            o += struct.pack(">I", v["type"])
            vs = vsizes[i] if vsizes else v["vsize"]
            o += _enc_nonneg(fmt, vs)
            o += struct.pack(">I", begins[i]) if fmt == 1 else struct.pack(">Q", begins[i])
    else:
        o += struct.pack(">I", 0) + _enc_nonneg(fmt, 0)
    return o


def header_size(h):
    return len(encode_header(h, [0] * len(h["vars"]), [0] * len(h["vars"])))


def encode(h, gaps=None, gap_rec=0, vsize_mode="exact", junk=0xA5, hdr_pad=0):
    """Encode abstract file h (as produced by decode, with v['data'] lists, row-major,
    records outermost) choosing a layout:
      gaps[i]   extra bytes before fixed variable i (multiple of 4)
      gap_rec   extra bytes between the fixed section and the record section
      hdr_pad   extra bytes between the header and the first variable
      vsize_mode exact | stale (an unrelated number) | unpadded | sat (0xFFFFFFFF; CDF-1/2 only)
      junk      byte value used for every byte not defined by the content
    Returns (bytes, begins)."""
    fmt = h["fmt"]
    dims = h["dims"]
    for v in h["vars"]:
        shape = [dims[d]["len"] for d in v["dimids"]]
        v["isrec"] = bool(shape) and shape[0] == 0
        v["shape"] = shape
        v["elsz"] = TYPE_SIZE[v["type"]]
        per = 1
        for d in (shape[1:] if v["isrec"] else shape):
            per *= d
        v["nelems_per_rec"] = per
        v["len"] = pad4(per * v["elsz"])
    fixed = [i for i, v in enumerate(h["vars"]) if not v["isrec"]]
    rec = [i for i, v in enumerate(h["vars"]) if v["isrec"]]
    xsz = header_size(h)
    pos = xsz + hdr_pad
    pos = pad4(pos)
    begins = [0] * len(h["vars"])
    gaps = gaps or {}
    for i in fixed:
        pos += gaps.get(i, 0)
        begins[i] = pos
        pos += h["vars"][i]["len"]
    pos += gap_rec
    if len(rec) == 1:
        recsize = h["vars"][rec[0]]["nelems_per_rec"] * h["vars"][rec[0]]["elsz"]
    else:
        recsize = sum(h["vars"][i]["len"] for i in rec)
    for i in rec:
        begins[i] = pos
        pos += h["vars"][i]["len"]
    vsizes = []
    for v in h["vars"]:
        if vsize_mode == "exact":
            vsizes.append(min(v["len"], (1 << 32) - 1) if fmt != 5 else v["len"])
        elif vsize_mode == "stale":
            vsizes.append(v["len"] + 8)
        elif vsize_mode == "unpadded":      # the byte count without the padding to a multiple of 4
            vsizes.append(v["nelems_per_rec"] * v["elsz"])
        else:
            vsizes.append((1 << 32) - 1 if fmt != 5 else v["len"])
    hdr = encode_header(h, begins, vsizes)
    assert len(hdr) == xsz
    end = xsz
    if fixed:
        end = begins[fixed[-1]] + h["vars"][fixed[-1]]["len"]
    if rec:
        end = max(end, begins[rec[0]] + recsize * h["numrecs"])
    elif fixed:
        pass
    buf = bytearray([junk]) * max(end, xsz)
    buf[:xsz] = hdr
    for i, v in enumerate(h["vars"]):
        t = v["type"]
        es = v["elsz"]
        data = v.get("data") or []
        per = v["nelems_per_rec"]
        if v["isrec"]:
            for r_ in range(h["numrecs"]):
                vals = data[r_ * per:(r_ + 1) * per]
                raw = struct.pack(">%d%s" % (len(vals), TYPE_FMT[t]), *vals)
                off = begins[i] + r_ * recsize
                buf[off:off + len(raw)] = raw
        else:
            raw = struct.pack(">%d%s" % (len(data), TYPE_FMT[t]), *data)
            buf[begins[i]:begins[i] + len(raw)] = raw
    return bytes(buf), begins


def abstract(h, with_layout=True):
    """JSON-able projection used in trace events."""
    o = {"fmt": h["fmt"], "numrecs": h["numrecs"],
         "dims": [[d["name"], d["len"]] for d in h["dims"]],
         "gatts": [[a["name"], a["type"], a["nelems"], a["vals"]] for a in h["gatts"]],
         "vars": []}
    for v in h["vars"]:
        e = {"name": v["name"], "type": v["type"], "dimids": v["dimids"],
             "atts": [[a["name"], a["type"], a["nelems"], a["vals"]] for a in v["atts"]]}
        if with_layout:
            e.update(begin=v["begin"], vsize=v["vsize"], len=v["len"])
        if "data" in v:
            e["data"] = v["data"]
        o["vars"].append(e)
    if with_layout:
        o.update(xsz=h["xsz"], recsize=h["recsize"])
    return o


if __name__ == "__main__":
    b = open(sys.argv[1], "rb").read()
    h = decode(b, data=len(sys.argv) > 2)
    print(json.dumps(abstract(h), indent=1, default=str))
    print("problems:", h["problems"] + layout_problems(h, len(b)))
