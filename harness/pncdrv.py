#!/usr/bin/env python3
"""pncdrv -- script interpreter that drives the real PnetCDF library (ctypes) on 1..N MPI
ranks and records one NDJSON event per API call (at the call's return, error paths too).

usage:  mpiexec -n N python3 pncdrv.py BUILD_DIR SCRIPT OUTDIR

SCRIPT is NDJSON; {"op":"begin","x":id} starts an execution (fresh scratch directory,
fresh handle tables); every other line is one step executed by the ranks it names
(default: all).  Per-rank arguments: "pr": {"<rank>": {overrides}}.  Each rank writes
OUTDIR/trace.<rank>.ndjson.  The harness puts an MPI_Barrier (outside the library)
between steps when more than one rank runs, so steps are totally ordered.

Events carry only what was observed: arguments used, return code (symbolic), outputs,
and the observations requested by the step ("obs": [...]).
"""
import sys, os, json, re, ctypes, struct, hashlib, threading, time, random, shutil, unicodedata
from ctypes import (c_int, c_longlong, c_void_p, c_char_p, c_byte, c_ubyte, c_short, c_ushort,
                    c_uint, c_long, c_float, c_double, c_ulonglong, c_char, byref, addressof,
                    POINTER, cast, sizeof, memmove, string_at)

HERE = os.path.dirname(os.path.abspath(__file__))
sys.path.insert(0, HERE)
import cdfdecode

NC_TYPES = {"byte": 1, "char": 2, "short": 3, "int": 4, "float": 5, "double": 6,
            "ubyte": 7, "ushort": 8, "uint": 9, "int64": 10, "uint64": 11}
NC_TYPE_NAMES = {v: k for k, v in NC_TYPES.items()}
# memory types: name -> (ctypes type, Open MPI datatype symbol, API suffix)
ITYPES = {
    "text": (c_ubyte, "ompi_mpi_char", "text"),
    "schar": (c_byte, "ompi_mpi_signed_char", "schar"),
    "uchar": (c_ubyte, "ompi_mpi_unsigned_char", "uchar"),
    "short": (c_short, "ompi_mpi_short", "short"),
    "ushort": (c_ushort, "ompi_mpi_unsigned_short", "ushort"),
    "int": (c_int, "ompi_mpi_int", "int"),
    "uint": (c_uint, "ompi_mpi_unsigned", "uint"),
    "long": (c_long, "ompi_mpi_long", "long"),
    "float": (c_float, "ompi_mpi_float", "float"),
    "double": (c_double, "ompi_mpi_double", "double"),
    "longlong": (c_longlong, "ompi_mpi_long_long_int", "longlong"),
    "ulonglong": (c_ulonglong, "ompi_mpi_unsigned_long_long", "ulonglong"),
}
# memory type that matches an external type without conversion
NATIVE_ITYPE = {"byte": "schar", "char": "text", "short": "short", "int": "int", "float": "float",
                "double": "double", "ubyte": "uchar", "ushort": "ushort", "uint": "uint",
                "int64": "longlong", "uint64": "ulonglong"}
CMODE = {"CLOBBER": 0, "NOCLOBBER": 4, "64BIT_DATA": 0x20, "CDF5": 0x20, "64BIT_OFFSET": 0x200,
         "WRITE": 1, "NOWRITE": 0, "SHARE": 0x800, "NETCDF4": 0x1000, "CLASSIC_MODEL": 0x100}
REQ_SPECIAL = {"ALL": -1, "GET_ALL": -2, "PUT_ALL": -3}
F_RDONLY, F_DEF, F_INDEP, F_CREATE, F_FILL, F_SAFE, F_BB = 0x1000, 0x2000, 0x4000, 0x8000, 0x10000, 0x20000, 0x40000
NC_NDIRTY = 0x400000
SENT = 0x5A  # sentinel byte for guard zones and gaps
GUARD = 32   # guard bytes on each side of every buffer handed to the library


def wide(n):
    """non-negative integer -> 4 limbs base 2^20, least significant first (module Wide of the specification)"""
    if n is None or n < 0:
        return [0, 0, 0, 0]
    return [(n >> (20 * k)) & 0xFFFFF for k in range(4)]


def longtext(s):
    """very long text values (filler attributes of multi-chunk headers) are logged as length + digest"""
    if len(s) <= 4096:
        return s
    return "L%d:%s" % (len(s), hashlib.sha1(s.encode("latin-1")).hexdigest()[:12])


def proj(v):
    """project a number to something TLC can hold (32-bit ints) without losing identity"""
    if v is None:
        return "none"
    if isinstance(v, float):
        if v != v:
            return "nan"
        if v in (float("inf"), float("-inf")):
            return "inf" if v > 0 else "-inf"
        if v == int(v) and abs(v) < 1 << 30:
            return int(v)
        return "f:" + repr(v)
    if isinstance(v, int):
        if abs(v) < 1 << 30:
            return v
        return "i:%d" % v
    return v


class _PMPI:
    """the harness' own MPI calls use the PMPI_ entry points, so the PMPI shim sees only the
    calls made by the library"""

    def __init__(self, lib):
        self._lib = lib

    def __getattr__(self, name):
        f = getattr(self._lib, "P" + name if name.startswith("MPI_") else name)
        f.restype = c_int
        setattr(self, name, f)
        return f


class Lib:
    def __init__(self, build):
        self.build = build
        self.mpi_raw = ctypes.CDLL("libmpi.so.40", mode=ctypes.RTLD_GLOBAL)
        self.mpi = _PMPI(self.mpi_raw)
        self.nc = ctypes.CDLL(os.path.join(build, "src/libs/.libs/libpnetcdf.so"), mode=ctypes.RTLD_GLOBAL)
        self.shim = None
        try:
            self.shim = ctypes.CDLL(None)
            self.shim.verif_shim_present
        except Exception:
            self.shim = None
        self._protos()
        self.nc.ncmpi_strerrno.restype = c_char_p
        self.nc.ncmpi_strerror.restype = c_char_p
        self.nc.ncmpi_inq_libvers.restype = c_char_p
        self.world = self.handle("ompi_mpi_comm_world")
        self.self_ = self.handle("ompi_mpi_comm_self")
        self.info_null = self.handle("ompi_mpi_info_null")
        self.dt_null = self.handle("ompi_mpi_datatype_null")
        self.byte = self.handle("ompi_mpi_byte")
        self.has_hook = hasattr(self.nc, "ncmpi_inq_verif_state")

    def handle(self, sym):
        return c_void_p(addressof(c_char.in_dll(self.mpi_raw, sym)))

    def _protos(self):
        s = open(os.path.join(self.build, "src/include/pnetcdf.h")).read()
        s = re.sub(r"/\*.*?\*/", "", s, flags=re.S)
        for ret, name, args in re.findall(r"extern\s+([\w\s\*]+?)\s*\b(ncmpi\w+)\s*\(([^;]*?)\)\s*;", s, flags=re.S):
            at = []
            for a in args.split(","):
                a = " ".join(a.split())
                if a in ("", "void"):
                    continue
                if "*" in a or "[" in a:
                    at.append(c_void_p)
                elif a.startswith("MPI_Offset"):
                    at.append(c_longlong)
                elif a.startswith(("MPI_Datatype", "MPI_Info", "MPI_Comm")):
                    at.append(c_void_p)
                else:
                    at.append(c_int)
            try:
                f = getattr(self.nc, name)
            except AttributeError:
                continue
            f.argtypes = at
            f.restype = c_int

    def errname(self, e):
        if e == 0:
            return "NC_NOERR"
        s = self.nc.ncmpi_strerrno(e)
        return s.decode() if s else "ERR%d" % e


def lla(lst):
    if lst is None:
        return None
    return (c_longlong * max(1, len(lst)))(*lst)


class Buf:
    """a caller buffer with guard zones; elements of the request live at positions pos[] of a
    base-typed array of length total"""

    def __init__(self, ctype, total):
        self.ctype = ctype
        self.es = sizeof(ctype)
        self.total = total
        nbytes = total * self.es + 2 * GUARD
        self.raw = (c_ubyte * nbytes)()
        ctypes.memset(self.raw, SENT, nbytes)
        self.addr = addressof(self.raw) + GUARD
        self.arr = (ctype * max(1, total)).from_address(self.addr)

    def ptr(self):
        return c_void_p(self.addr)

    def set(self, pos, vals):
        for p, v in zip(pos, vals):
            self.arr[p] = v

    def get(self, pos):
        return [self.arr[p] for p in pos]

    def bytes(self):
        return bytes(self.raw)

    def untouched_outside(self, pos):
        """every byte not belonging to a selected element still holds the sentinel"""
        b = bytes(self.raw)
        sel = bytearray(len(b))
        for p in pos:
            o = GUARD + p * self.es
            sel[o:o + self.es] = b"\1" * self.es
        for i, x in enumerate(b):
            if not sel[i] and x != SENT:
                return False
        return True


class Ctx:
    def __init__(self):
        self.files = {}      # label -> ncid (kept after close: stale ids)
        self.paths = {}
        self.reqs = {}       # label -> dict(id, orig, buf, pos, kind, snap, dtype)
        self.names = set()
        self.dtypes = []
        self.abuf = {}


class Driver:
    def __init__(self, build, script, outdir):
        self.L = Lib(build)
        L = self.L
        L.mpi.MPI_Init(None, None)
        r = c_int()
        n = c_int()
        L.mpi.MPI_Comm_rank(L.world, byref(r))
        L.mpi.MPI_Comm_size(L.world, byref(n))
        self.rank, self.np = r.value, n.value
        self.outdir = outdir
        os.makedirs(outdir, exist_ok=True)
        self.tr = open(os.path.join(outdir, "trace.%d.ndjson" % self.rank), "w")
        self.script = [json.loads(l) for l in open(script) if l.strip()]
        self.ctx = Ctx()
        self.x = None
        self.k = 0
        self.seq = 0
        self.step_timeout = float(os.environ.get("VERIF_STEP_TIMEOUT", "20"))
        self.deadline = None
        self.cur = None
        self.rng = random.Random(int(os.environ.get("VERIF_SEED", "0")) * 1000 + self.rank)
        self.jitter = float(os.environ.get("VERIF_JITTER", "0"))
        t = threading.Thread(target=self.watchdog, daemon=True)
        t.start()

    # ------------------------------------------------------------ infrastructure
    def watchdog(self):
        while True:
            time.sleep(0.25)
            d = self.deadline
            if d is not None and time.time() > d:
                try:
                    self.emit({"e": "HANG", "a": self.cur})
                    self.tr.flush()
                finally:
                    os._exit(7)

    def emit(self, ev):
        self.seq += 1
        ev = dict(x=self.x, k=self.k, r=self.rank, q=self.seq, **ev)
        self.tr.write(json.dumps(ev, separators=(",", ":")) + "\n")
        self.tr.flush()

    def barrier(self):
        if self.np > 1:
            self.L.mpi.MPI_Barrier(self.L.world)

    def scratch(self):
        return os.path.join(self.outdir, "x%s" % self.x)

    def path(self, name):
        if name.startswith("/"):
            return name
        return os.path.join(self.scratch(), name)

    def ncid(self, st):
        if "ncid" in st:
            return st["ncid"]
        return self.ctx.files.get(str(st.get("f", 0)), -1)

    def mkinfo(self, hints):
        L = self.L
        if not hints:
            return L.info_null, None
        info = c_void_p()
        L.mpi.MPI_Info_create(byref(info))
        for k, v in hints.items():
            L.mpi.MPI_Info_set(info, k.encode(), str(v).replace("$SCRATCH", self.scratch()).encode())
        return info, info

    def run(self):
        for st in self.script:
            op = st["op"]
            if op == "begin":
                self.end_exec()
                self.x = st.get("x", 0)
                self.k = 0
                self.skipping = False
                self.stop_on_fire = False
                self.ctx = Ctx()
                self.env_set = {}
                if self.rank == 0:
                    shutil.rmtree(self.scratch(), ignore_errors=True)
                    os.makedirs(self.scratch(), exist_ok=True)
                for k_, v_ in (st.get("env") or {}).items():
                    self.env_set[k_] = os.environ.get(k_)
                    if v_ is None:
                        os.environ.pop(k_, None)
                    else:
                        os.environ[k_] = str(v_)
                    # the C library reads the environment with getenv(): keep libc in sync
                    libc = ctypes.CDLL(None)
                    if v_ is None:
                        libc.unsetenv(k_.encode())
                    else:
                        libc.setenv(k_.encode(), str(v_).encode(), 1)
                self.barrier()
                continue
            self.k += 1
            if getattr(self, "skipping", False):
                # the armed failure has fired in an earlier step of this execution: the program ends there
                rk_ = st.get("ranks")
                if rk_ is None or self.rank in rk_:
                    self.emit({"e": op, "a": {"skipped": 1}, "rc": "SKIPPED", "out": {}, "obs": {}})
                continue
            ranks = st.get("ranks")
            if ranks is None or self.rank in ranks:
                a = {k_: v_ for k_, v_ in st.items() if k_ not in ("op", "ranks", "pr", "obs")}
                pr = st.get("pr", {}).get(str(self.rank))
                if pr:
                    a.update(pr)
                    a = {k_: v_ for k_, v_ in a.items() if v_ is not None}   # None in an override removes the key
                if self.jitter > 0:
                    time.sleep(self.rng.random() * self.jitter)
                self.cur = dict(op=op, **a)
                self.deadline = time.time() + self.step_timeout
                t_op = time.time()
                try:
                    rc, out = getattr(self, "op_" + op)(a)
                    ev = {"e": op, "a": a, "rc": rc if isinstance(rc, str) else self.L.errname(rc), "out": out}
                except Exception as ex:  # harness problem, never a verdict
                    import traceback
                    ev = {"e": op, "a": a, "rc": "DRIVER_ERROR", "out": {"msg": traceback.format_exc()}}
                self.deadline = None
                if not st.get("nosync"):
                    self.barrier()
                obs = {}
                t_op = time.time() - t_op
                self.deadline = time.time() + self.step_timeout
                for o in st.get("obs", []):
                    if o == "ms":        # wall time of the call itself
                        obs["ms"] = int(t_op * 1000)
                        continue
                    try:
                        obs[o] = getattr(self, "obs_" + o)(a)
                    except Exception as ex:
                        import traceback
                        obs[o] = {"DRIVER_ERROR": traceback.format_exc()}
                self.deadline = None
                ev["obs"] = obs
                self.emit(ev)
            else:
                if not st.get("nosync"):
                    self.barrier()
            if st.get("obs") and not st.get("nosync"):
                self.barrier()
            if getattr(self, "stop_on_fire", False) and self.L.shim is not None:
                bal = (c_longlong * 8)()
                self.L.shim.verif_shim_balance(bal)
                mine, anyf = c_int(1 if bal[5] else 0), c_int(0)
                self.L.mpi.MPI_Allreduce(byref(mine), byref(anyf), 1, self.L.handle("ompi_mpi_int"), self.L.handle("ompi_mpi_op_max"), self.L.world)
                if anyf.value:
                    self.skipping = True
        self.end_exec()
        self.tr.close()
        self.L.mpi.MPI_Finalize()

    def end_exec(self):
        """between executions: release whatever the script left open (not part of any verdict)"""
        if self.x is None:
            return
        for lab, ncid in list(self.ctx.files.items()):
            if lab in self.ctx.open_labels():
                self.L.nc.ncmpi_cancel(ncid, -1, None, None)   # NC_REQ_ALL: hygiene only
                self.L.nc.ncmpi_abort(ncid)
        for k_, v_ in getattr(self, "env_set", {}).items():
            libc = ctypes.CDLL(None)
            if v_ is None:
                os.environ.pop(k_, None)
                libc.unsetenv(k_.encode())
            else:
                os.environ[k_] = v_
                libc.setenv(k_.encode(), v_.encode(), 1)
        self.barrier()
        if self.rank == 0 and not os.environ.get("VERIF_KEEP"):
            shutil.rmtree(self.scratch(), ignore_errors=True)
        self.barrier()

    # ------------------------------------------------------------ file-level ops
    def _cmode(self, lst):
        m = 0
        for c in lst or []:
            m |= CMODE[c] if isinstance(c, str) else c
        return m

    def _comm(self, a):
        return self.L.self_ if a.get("comm") == "self" else self.L.world

    def _comm2(self, a):
        """communicator for create/open; "dup": a duplicate of WORLD owned by the harness (the library
        must then keep and release its own duplicate)"""
        if a.get("comm") == "dup":
            c = c_void_p()
            self.L.mpi.MPI_Comm_dup(self.L.world, byref(c))
            return c, c
        return self._comm(a), None

    def op_create(self, a):
        L = self.L
        info, fr = self.mkinfo(a.get("info"))
        ncid = c_int(-1)
        p = self.path(a["path"])
        comm, cfree = self._comm2(a)
        e = L.nc.ncmpi_create(comm, p.encode(), self._cmode(a.get("cmode")), info, byref(ncid))
        if cfree is not None:
            L.mpi.MPI_Comm_free(byref(cfree))
        self.ctx.paths.setdefault(str(a.get("f", 0)), p)
        if fr is not None:
            L.mpi.MPI_Info_free(byref(fr))
        if e == 0 or ncid.value >= 0:   # (a consistency warning such as NC_EMULTIDEFINE_CMODE still returns a usable id)
            self.ctx.files[str(a.get("f", 0))] = ncid.value
            self.ctx.paths[str(a.get("f", 0))] = p
            self.ctx.opened = getattr(self.ctx, "opened", set()) | {str(a.get("f", 0))}
        return e, {"ncid": ncid.value if (e == 0 or ncid.value >= 0) else -1, "exists": os.path.exists(p)}

    def op_open(self, a):
        L = self.L
        info, fr = self.mkinfo(a.get("info"))
        ncid = c_int(-1)
        p = self.path(a["path"])
        comm, cfree = self._comm2(a)
        e = L.nc.ncmpi_open(comm, p.encode(), self._cmode(a.get("omode")), info, byref(ncid))
        if cfree is not None:
            L.mpi.MPI_Comm_free(byref(cfree))
        if fr is not None:
            L.mpi.MPI_Info_free(byref(fr))
        if e == 0:
            self.ctx.files[str(a.get("f", 0))] = ncid.value
            self.ctx.paths[str(a.get("f", 0))] = p
            self.ctx.opened = getattr(self.ctx, "opened", set()) | {str(a.get("f", 0))}
        return e, {"ncid": ncid.value if e == 0 else -1}

    def _released(self, a, e):
        lab = str(a.get("f", 0))
        if "ncid" not in a and e != -33:  # NC_EBADID: nothing was released
            op = getattr(self.ctx, "opened", set())
            op.discard(lab)
            self.ctx.opened = op

    def op_close(self, a):
        e = self.L.nc.ncmpi_close(self.ncid(a))
        self._released(a, e)
        p = self.ctx.paths.get(str(a.get("f", 0)))
        return e, {"exists": bool(p and os.path.exists(p))}

    def op_abort(self, a):
        e = self.L.nc.ncmpi_abort(self.ncid(a))
        self._released(a, e)
        p = self.ctx.paths.get(str(a.get("f", 0)))
        return e, {"exists": bool(p and os.path.exists(p))}

    def op_delete(self, a):
        return self.L.nc.ncmpi_delete(self.path(a["path"]).encode(), self.L.info_null), {}

    def op_enddef(self, a):
        return self.L.nc.ncmpi_enddef(self.ncid(a)), {}

    def op__enddef(self, a):
        return self.L.nc.ncmpi__enddef(self.ncid(a), a.get("h_minfree", 0), a.get("v_align", 0),
                                       a.get("v_minfree", 0), a.get("r_align", 0)), {}

    def op_redef(self, a):
        return self.L.nc.ncmpi_redef(self.ncid(a)), {}

    def op_begin_indep(self, a):
        return self.L.nc.ncmpi_begin_indep_data(self.ncid(a)), {}

    def op_end_indep(self, a):
        return self.L.nc.ncmpi_end_indep_data(self.ncid(a)), {}

    def op_sync(self, a):
        return self.L.nc.ncmpi_sync(self.ncid(a)), {}

    def op_sync_numrecs(self, a):
        return self.L.nc.ncmpi_sync_numrecs(self.ncid(a)), {}

    def op_flush(self, a):
        return self.L.nc.ncmpi_flush(self.ncid(a)), {}

    def op_set_fill(self, a):
        old = c_int(-1)
        e = self.L.nc.ncmpi_set_fill(self.ncid(a), 0x100 if a["fill"] == "NOFILL" else 0, byref(old))
        return e, {"old": {0: "FILL", 0x100: "NOFILL"}.get(old.value, old.value)}

    def op_set_default_format(self, a):
        old = c_int(-1)
        e = self.L.nc.ncmpi_set_default_format(a["fmt"], byref(old))
        return e, {"old": old.value}

    def op_noop(self, a):
        return 0, {}

    def op_readall(self, a):
        """C19: read every variable of whatever schema the (possibly malformed) file presented -- whole, through the
        collective API, into a buffer sized from the library's own reports (bounded); -> first error or NC_NOERR"""
        nc = self.L.nc
        ncid = self.ncid(a)
        nv = c_int(0)
        e = nc.ncmpi_inq_nvars(ncid, byref(nv))
        if e != 0:
            return e, {}
        first, done = 0, 0
        for v in range(min(nv.value, 64)):
            nd, xt = c_int(0), c_int(0)
            e = nc.ncmpi_inq_varndims(ncid, v, byref(nd)) or nc.ncmpi_inq_vartype(ncid, v, byref(xt))
            if e != 0:
                first = first or e
                continue
            if not (0 <= nd.value <= 32):
                continue
            dimids = (c_int * max(1, nd.value))()
            nc.ncmpi_inq_vardimid(ncid, v, dimids)
            n, ok = 1, True
            for k in range(nd.value):
                ln = c_longlong(-1)
                if nc.ncmpi_inq_dimlen(ncid, dimids[k], byref(ln)) != 0 or ln.value < 0:
                    ok = False
                    break
                n *= ln.value
            if not ok or n > 200000:
                continue
            if xt.value == 2:
                buf = (c_ubyte * max(1, n))()
                e = nc.ncmpi_get_var_text_all(ncid, v, buf)
            else:
                buf = (ctypes.c_double * max(1, n))()
                e = nc.ncmpi_get_var_double_all(ncid, v, buf)
            done += 1
            if e != 0 and e != -60:      # NC_ERANGE is a per-element condition, not a failure of the read
                first = first or e
        return first, {"read": done}

    def op_mkdir(self, a):
        """rank 0 creates a directory inside the execution's scratch directory (e.g. for burst-buffer logs)"""
        if self.rank == 0:
            os.makedirs(self.path(a["path"]), exist_ok=True)
        return 0, {}

    def op_load(self, a):
        """no library call: tells the trace specification the content of a file written by someone else"""
        for n in a.get("names", []):
            self.ctx.names.add(n)
        return 0, {}

    def op_mark(self, a):
        """no library call: marks a position in the trace (e.g. the end of the fixture)"""
        return 0, {}

    # ------------------------------------------------------------ define-mode ops
    def op_def_dim(self, a):
        d = c_int(-1)
        self.ctx.names.add(a["name"])
        e = self.L.nc.ncmpi_def_dim(self.ncid(a), a["name"].encode(), a["len"], byref(d))
        return e, {"id": d.value}

    def op_def_var(self, a):
        v = c_int(-1)
        self.ctx.names.add(a["name"])
        dims = a.get("dims", [])
        arr = (c_int * max(1, len(dims)))(*dims)
        e = self.L.nc.ncmpi_def_var(self.ncid(a), a["name"].encode(), NC_TYPES.get(a["xtype"], a["xtype"]) if isinstance(a["xtype"], str) else a["xtype"],
                                    len(dims), arr, byref(v))
        return e, {"id": v.value}

    def _ivals(self, itype, vals):
        ct = ITYPES[itype][0]
        if itype == "text" and isinstance(vals, str):
            b = vals.encode("utf-8")
            return (c_ubyte * max(1, len(b)))(*b), len(b)
        return (ct * max(1, len(vals)))(*vals), len(vals)

    def op_def_var_fill(self, a):
        fv = None
        if a.get("fillval") is not None:
            xt = a["xtype"]
            fv, _ = self._ivals(NATIVE_ITYPE[xt], [a["fillval"]])
        e = self.L.nc.ncmpi_def_var_fill(self.ncid(a), a["v"], 1 if a.get("nofill") else 0, fv)
        return e, {}

    def op_inq_var_fill(self, a):
        nf = c_int(-1)
        buf = (c_ubyte * 16)()
        e = self.L.nc.ncmpi_inq_var_fill(self.ncid(a), a["v"], byref(nf), buf)
        out = {"nofill": nf.value}
        if e == 0 and "xtype" in a:
            ct = ITYPES[NATIVE_ITYPE[a["xtype"]]][0]
            out["fillval"] = proj(ct.from_buffer(buf).value)
        return e, out

    def op_put_att(self, a):
        name = a["name"].encode()
        self.ctx.names.add(a["name"])
        it = a["itype"]
        arr, n = self._ivals(it, a["vals"])
        if "n" in a:
            n = a["n"]
        if it == "text":
            e = self.L.nc.ncmpi_put_att_text(self.ncid(a), a.get("v", -1), name, n, arr)
        else:
            fn = getattr(self.L.nc, "ncmpi_put_att_" + ITYPES[it][2])
            e = fn(self.ncid(a), a.get("v", -1), name, NC_TYPES[a["xtype"]], n, arr)
        return e, {}

    def _get_att(self, ncid, v, name, itype=None):
        L = self.L
        t = c_int(0)
        ln = c_longlong(0)
        e = L.nc.ncmpi_inq_att(ncid, v, name, byref(t), byref(ln))
        if e != 0:
            return e, {}
        out = {"type": t.value, "len": ln.value}
        if not (0 <= ln.value <= 4000000):       # (malformed input: do not size a buffer from an implausible length)
            out["vals"] = "HUGE"
            return e, out
        it = itype or NATIVE_ITYPE.get(NC_TYPE_NAMES.get(t.value), "double")
        ct = ITYPES[it][0]
        buf = Buf(ct, max(1, ln.value))
        if it == "text":
            e = L.nc.ncmpi_get_att_text(ncid, v, name, buf.ptr())
        else:
            e = getattr(L.nc, "ncmpi_get_att_" + ITYPES[it][2])(ncid, v, name, buf.ptr())
        vals = buf.get(range(ln.value))
        if it == "text":
            out["vals"] = longtext(bytes(vals).decode("latin-1"))
        else:
            out["vals"] = [proj(x) for x in vals]
        out["guard"] = buf.untouched_outside(range(ln.value))
        return e, out

    def op_get_att(self, a):
        return self._get_att(self.ncid(a), a.get("v", -1), a["name"].encode(), a.get("itype"))

    def op_inq_att(self, a):
        t = c_int(0)
        ln = c_longlong(-1)
        e = self.L.nc.ncmpi_inq_att(self.ncid(a), a.get("v", -1), a["name"].encode(), byref(t), byref(ln))
        return e, {"type": t.value, "len": ln.value}

    def op_del_att(self, a):
        return self.L.nc.ncmpi_del_att(self.ncid(a), a.get("v", -1), a["name"].encode()), {}

    def op_rename_att(self, a):
        self.ctx.names.add(a["new"])
        return self.L.nc.ncmpi_rename_att(self.ncid(a), a.get("v", -1), a["name"].encode(), a["new"].encode()), {}

    def op_copy_att(self, a):
        self.ctx.names.add(a["name"])
        nc2 = self.ctx.files.get(str(a.get("f2", a.get("f", 0))), -1)
        return self.L.nc.ncmpi_copy_att(self.ncid(a), a.get("v", -1), a["name"].encode(), nc2, a.get("v2", -1)), {}

    def op_rename_dim(self, a):
        self.ctx.names.add(a["new"])
        return self.L.nc.ncmpi_rename_dim(self.ncid(a), a["d"], a["new"].encode()), {}

    def op_rename_var(self, a):
        self.ctx.names.add(a["new"])
        return self.L.nc.ncmpi_rename_var(self.ncid(a), a["v"], a["new"].encode()), {}

    def op_inq(self, a):
        nd, nv, na, ud = c_int(-9), c_int(-9), c_int(-9), c_int(-9)
        e = self.L.nc.ncmpi_inq(self.ncid(a), byref(nd), byref(nv), byref(na), byref(ud))
        return e, {"ndims": nd.value, "nvars": nv.value, "ngatts": na.value, "unlim": ud.value}

    def op_inq_format(self, a):
        f = c_int(-9)
        e = self.L.nc.ncmpi_inq_format(self.ncid(a), byref(f))
        return e, {"fmt": f.value}

    def op_inq_varid(self, a):
        v = c_int(-9)
        e = self.L.nc.ncmpi_inq_varid(self.ncid(a), a["name"].encode(), byref(v))
        return e, {"id": v.value}

    def op_inq_dimid(self, a):
        v = c_int(-9)
        e = self.L.nc.ncmpi_inq_dimid(self.ncid(a), a["name"].encode(), byref(v))
        return e, {"id": v.value}

    def op_inq_nreqs(self, a):
        n = c_int(-9)
        e = self.L.nc.ncmpi_inq_nreqs(self.ncid(a), byref(n))
        return e, {"n": n.value}

    def op_inq_file_info(self, a):
        L = self.L
        info = c_void_p()
        e = L.nc.ncmpi_inq_file_info(self.ncid(a), byref(info))
        out = {}
        if e == 0:
            nk = c_int()
            L.mpi.MPI_Info_get_nkeys(info, byref(nk))
            key = ctypes.create_string_buffer(256)
            val = ctypes.create_string_buffer(1024)
            flag = c_int()
            for i in range(nk.value):
                L.mpi.MPI_Info_get_nthkey(info, i, key)
                L.mpi.MPI_Info_get(info, key, 1023, val, byref(flag))
                out[key.value.decode()] = val.value.decode()
            L.mpi_raw.MPI_Info_free(byref(info))
        return e, {"info": out}

    def op_inq_layout(self, a):
        """library's own reports of header size/extent, record size, variable offsets"""
        nc = self.L.nc
        ncid = self.ncid(a)
        hs, he, rs = c_longlong(-1), c_longlong(-1), c_longlong(-1)
        e1 = nc.ncmpi_inq_header_size(ncid, byref(hs))
        e2 = nc.ncmpi_inq_header_extent(ncid, byref(he))
        e3 = nc.ncmpi_inq_recsize(ncid, byref(rs))
        nv = c_int(0)
        nc.ncmpi_inq_nvars(ncid, byref(nv))
        offs = []
        for v in range(max(0, nv.value)):
            o = c_longlong(-1)
            nc.ncmpi_inq_varoffset(ncid, v, byref(o))
            offs.append(o.value)
        return (e1 or e2 or e3), {"hsize": hs.value, "hextent": he.value, "recsize": rs.value, "offs": offs}

    # ------------------------------------------------------------ buffer layouts
    def _layout(self, it, n, flex):
        """positions of the n request elements inside a base-typed array, the array length,
        and for the flexible API (bufcount, MPI datatype, handle to free)"""
        L = self.L
        ct, sym, _ = ITYPES[it]
        et = L.handle(sym)
        if not flex:
            return list(range(n)), n, None, None, None
        lay = flex.get("layout", "contig")
        if n == 0 and lay not in ("contig", "ignore"):
            lay = "contig"     # a derived type always describes at least one element
        mpi = L.mpi
        new = c_void_p()
        if lay == "contig":
            pos, total, cnt, dt, fr = list(range(n)), n, n, et, None
        elif lay == "ignore":  # NC_COUNT_IGNORE with a predefined type
            pos, total, cnt, dt, fr = list(range(n)), n, -1, et, None
        elif lay == "contig1":
            mpi.MPI_Type_contiguous(max(n, 0), et, byref(new))
            pos, total, cnt, dt, fr = list(range(n)), n, 1, new, new
        elif lay == "vector":       # one element, one gap
            mpi.MPI_Type_vector(n, 1, 2, et, byref(new))
            pos, total, cnt, dt, fr = [2 * i for i in range(n)], 2 * n, 1, new, new
        elif lay == "vector23":     # blocks of two, stride three
            nb = (n + 1) // 2
            if n % 2 == 0:
                mpi.MPI_Type_vector(nb, 2, 3, et, byref(new))
                pos = [3 * (i // 2) + i % 2 for i in range(n)]
            else:  # odd: fall back to indexed with the same pattern
                bl = (c_int * nb)(*([2] * (nb - 1) + [1]))
                ds = (c_int * nb)(*[3 * i for i in range(nb)])
                mpi.MPI_Type_indexed(nb, bl, ds, et, byref(new))
                pos = [3 * (i // 2) + i % 2 for i in range(n)]
            total, cnt, dt, fr = 3 * nb, 1, new, new
        elif lay == "indexed":      # leading gap, irregular gaps
            pos = [1 + i + (i // 2) + (1 if i >= 3 else 0) for i in range(n)]
            bl = (c_int * max(1, n))(*([1] * n))
            ds = (c_int * max(1, n))(*pos)
            mpi.MPI_Type_indexed(n, bl, ds, et, byref(new))
            total, cnt, dt, fr = (pos[-1] + 2 if n else 1), 1, new, new
        elif lay == "subarray":     # 1 x n block at (1,1) of a 3 x (n+2) array
            sizes = (c_int * 2)(3, n + 2)
            sub = (c_int * 2)(1, max(n, 1))
            st = (c_int * 2)(1, 1)
            mpi.MPI_Type_create_subarray(2, sizes, sub, st, 0, et, byref(new))  # 0 = MPI_ORDER_C (Open MPI)
            pos, total, cnt, dt, fr = [(n + 2) + 1 + i for i in range(n)], 3 * (n + 2), 1, new, new
        elif lay == "resized":      # n copies of an element type whose extent is two elements
            mpi.MPI_Type_create_resized(et, ctypes.c_long(0), ctypes.c_long(2 * sizeof(ct)), byref(new))
            pos, total, cnt, dt, fr = [2 * i for i in range(n)], 2 * n, n, new, new
        else:
            raise ValueError("layout " + lay)
        if fr is not None:
            mpi.MPI_Type_commit(byref(new))
        if "bufcount" in flex:
            cnt = flex["bufcount"]
        return pos, total, cnt, dt, fr

    def _filetype(self, a, ncid):
        """MPI filetype for vard built from start/count(/stride==1) of the variable"""
        L = self.L
        nc = L.nc
        v = a["v"]
        nd = c_int()
        xt = c_int()
        nc.ncmpi_inq_varndims(ncid, v, byref(nd))
        nc.ncmpi_inq_vartype(ncid, v, byref(xt))
        dimids = (c_int * max(1, nd.value))()
        nc.ncmpi_inq_vardimid(ncid, v, dimids)
        ud = c_int(-1)
        nc.ncmpi_inq_unlimdim(ncid, byref(ud))
        shape = []
        for i in range(nd.value):
            ln = c_longlong()
            nc.ncmpi_inq_dimlen(ncid, dimids[i], byref(ln))
            shape.append(ln.value)
        isrec = nd.value > 0 and dimids[0] == ud.value
        et = L.handle(ITYPES[a.get("ftype") or NATIVE_ITYPE[NC_TYPE_NAMES[xt.value]]][1])
        es = cdfdecode.TYPE_SIZE[xt.value]
        start, count = a["start"], a["count"]
        new = c_void_p()
        if nd.value == 0:
            return et, None
        if any(c == 0 for c in count):
            return L.dt_null if a.get("nullft") else et, None
        if not isrec:
            L.mpi.MPI_Type_create_subarray(nd.value, (c_int * nd.value)(*shape), (c_int * nd.value)(*count),
                                           (c_int * nd.value)(*start), 0, et, byref(new))
            L.mpi.MPI_Type_commit(byref(new))
            return new, new
        rs = c_longlong()
        nc.ncmpi_inq_recsize(ncid, byref(rs))
        if nd.value == 1:
            inner, fr_inner, inner_off = et, None, 0
        else:
            sub = c_void_p()
            L.mpi.MPI_Type_create_subarray(nd.value - 1, (c_int * (nd.value - 1))(*shape[1:]),
                                           (c_int * (nd.value - 1))(*count[1:]), (c_int * (nd.value - 1))(*start[1:]),
                                           0, et, byref(sub))
            inner, fr_inner = sub, sub
        hv = c_void_p()
        L.mpi.MPI_Type_create_hvector(count[0], 1, ctypes.c_long(rs.value), inner, byref(hv))
        # shift by start[0] records
        bl = (c_int * 1)(1)
        ds = (ctypes.c_long * 1)(start[0] * rs.value)
        L.mpi.MPI_Type_create_hindexed(1, bl, ds, hv, byref(new))
        L.mpi.MPI_Type_commit(byref(new))
        L.mpi.MPI_Type_free(byref(hv))
        if fr_inner is not None:
            L.mpi.MPI_Type_free(byref(fr_inner))
        return new, new

    # ------------------------------------------------------------ data access
    def _access(self, a, rw):
        """common code of put/get, blocking and nonblocking"""
        L = self.L
        nc = L.nc
        ncid = self.ncid(a)
        kind = a.get("kind", "blocking")       # blocking | i | b
        form = a.get("form", "vara")
        coll = a.get("mode", "coll") == "coll"
        it = a["itype"]
        flex = a.get("flex")
        ct = ITYPES[it][0]
        vals = a.get("vals")
        n = a["n"] if "n" in a else (len(vals) if vals is not None else 0)
        pos, total, cnt, dt, fr = self._layout(it, n, flex)
        imap = a.get("imap")
        if form == "varm" and imap is not None and a.get("imap_buf"):
            # memory positions given explicitly by the script (dot product of index and imap)
            pos = a["imap_buf"]["pos"]
            total = a["imap_buf"]["total"]
        buf = Buf(ct, total)
        if rw == "put":
            buf.set(pos, vals)
        prefix = {"blocking": rw, "i": "i" + rw, "b": "bput"}[kind]
        name = "ncmpi_%s_%s" % (prefix, form)
        if not flex and form != "vard":
            name += "_" + ITYPES[it][2]
        if coll and kind == "blocking":
            name += "_all"
        fn = getattr(nc, name)
        args = [ncid, a["v"]]
        keep = []
        ft_free = None
        if form == "var1":
            s = lla(a.get("start")); keep.append(s); args += [s]
        elif form == "vara":
            s, c = lla(a.get("start")), lla(a.get("count")); keep += [s, c]; args += [s, c]
        elif form == "vars":
            s, c, sd = lla(a.get("start")), lla(a.get("count")), lla(a.get("stride")); keep += [s, c, sd]; args += [s, c, sd]
        elif form == "varm":
            s, c, sd, im = lla(a.get("start")), lla(a.get("count")), lla(a.get("stride")), lla(imap)
            keep += [s, c, sd, im]; args += [s, c, sd, im]
        elif form == "varn":
            starts, counts = a["starts"], a.get("counts")
            num = a.get("num", len(starts))
            sarrs = [lla(x) for x in starts]
            sp = (c_void_p * max(1, len(starts)))(*[cast(x, c_void_p) for x in sarrs])
            keep += [sarrs, sp]
            if counts is not None:
                carrs = [lla(x) for x in counts]
                cp = (c_void_p * max(1, len(counts)))(*[cast(x, c_void_p) if x is not None else None for x in carrs])
                keep += [carrs, cp]
            else:
                cp = None
            args += [num, sp, cp]
        elif form == "vard":
            ft, ft_free = self._filetype(a, ncid)
            args += [ft]
        elif form != "var":
            raise ValueError(form)
        args.append(buf.ptr())
        if flex or form == "vard":
            if form == "vard" and not flex:
                cnt, dt = n, L.handle(ITYPES[it][1])
            args += [cnt, dt]
        req = c_int(-777)
        if kind != "blocking":
            args.append(byref(req))
        before = buf.bytes()
        e = fn(*args)
        out = {}
        if ft_free is not None:
            L.mpi.MPI_Type_free(byref(ft_free))
        if kind == "blocking":
            if rw == "put":
                out["bufsame"] = buf.bytes() == before
            else:
                out["buf"] = [proj(x) for x in buf.get(pos)]
                out["guard"] = buf.untouched_outside(pos)
                if a.get("rawhex"):     # the elements as they would lie in the file (big-endian), for bit-exact comparison
                    out["hex"] = "".join(bytes(ct(x))[::-1].hex() for x in buf.get(pos))
                    out["hexb"] = [out["hex"][2 * q:2 * q + 2] for q in range(len(out["hex"]) // 2)]
            if fr is not None:
                L.mpi.MPI_Type_free(byref(fr))
        else:
            lab = a.get("req")
            out["id"] = "NULL" if req.value == -1 else req.value
            out["isnull"] = req.value == -1
            if lab is not None:
                self.ctx.reqs[lab] = dict(id=req.value, orig=req.value, buf=buf, pos=pos, kind=kind, rw=rw,
                                          snap=before, fr=fr, keep=keep, posted=(e == 0 or req.value not in (-777,)))
                if kind == "b" and a.get("scramble", True):
                    # the data of a buffered put must have been captured at posting time
                    for p in pos:
                        buf.arr[p] = 99
                    self.ctx.reqs[lab]["snap"] = buf.bytes()
            elif fr is not None:
                pass  # leaked on purpose only when the script gave no label
        return e, out

    def op_put(self, a):
        return self._access(a, "put")

    def op_get(self, a):
        return self._access(a, "get")

    def _reqarr(self, reqs):
        ids = []
        for r in reqs:
            if r == "NULL":
                ids.append(-1)
            elif isinstance(r, int):
                ids.append(r)
            elif r.startswith("stale:"):
                ids.append(self.ctx.reqs[r[6:]]["orig"])
            else:
                ids.append(self.ctx.reqs[r]["id"] if r in self.ctx.reqs else -555)
        return ids

    def _after(self, out):
        """state of every labelled nonblocking buffer after a wait/cancel"""
        g, s = {}, {}
        for lab, r in self.ctx.reqs.items():
            if r["rw"] == "get":
                g[lab] = {"buf": [proj(x) for x in r["buf"].get(r["pos"])], "guard": r["buf"].untouched_outside(r["pos"])}
            else:
                s[lab] = r["buf"].bytes() == r["snap"]
        out["gbufs"] = g
        out["bufsame"] = s

    def _waitlike(self, a, fn):
        reqs = a.get("special", a.get("reqs", "ALL"))
        if isinstance(reqs, str):
            num, arr, stt = REQ_SPECIAL[reqs], None, None
            e = fn(self.ncid(a), num, None, None)
            out = {}
        else:
            ids = self._reqarr(reqs)
            num = a.get("num", len(ids))
            arr = (c_int * max(1, len(ids)))(*ids)
            stt = (c_int * max(1, len(ids)))(*([-999] * len(ids)))
            e = fn(self.ncid(a), num, arr, None if a.get("nostatus") else stt)
            out = {"ids": ["NULL" if arr[i] == -1 else arr[i] for i in range(len(ids))],
                   "allnull": all(arr[i] == -1 for i in range(len(ids))),
                   "st": [self.L.errname(stt[i]) if stt[i] != -999 else "UNSET" for i in range(len(ids))]}
            for i, r in enumerate(reqs):
                if isinstance(r, str) and r in self.ctx.reqs:
                    self.ctx.reqs[r]["id"] = arr[i]
        self._after(out)
        return e, out

    def op_wait(self, a):
        fn = self.L.nc.ncmpi_wait_all if a.get("mode", "coll") == "coll" else self.L.nc.ncmpi_wait
        return self._waitlike(a, fn)

    def op_cancel(self, a):
        return self._waitlike(a, self.L.nc.ncmpi_cancel)

    def op_buffer_attach(self, a):
        return self.L.nc.ncmpi_buffer_attach(self.ncid(a), a["size"]), {}

    def op_buffer_detach(self, a):
        return self.L.nc.ncmpi_buffer_detach(self.ncid(a)), {}

    def op_inq_buffer(self, a):
        u, s = c_longlong(-9), c_longlong(-9)
        e1 = self.L.nc.ncmpi_inq_buffer_usage(self.ncid(a), byref(u))
        e2 = self.L.nc.ncmpi_inq_buffer_size(self.ncid(a), byref(s))
        return e1, {"usage": u.value, "size": s.value, "rc2": self.L.errname(e2)}

    def op_fill_var_rec(self, a):
        return self.L.nc.ncmpi_fill_var_rec(self.ncid(a), a["v"], a["rec"]), {}

    # ------------------------------------------------------------ observations
    def obs_st(self, a):
        """hook 2: dispatcher and driver flag words, numrecs, queues, attached buffer"""
        L = self.L
        o = (c_longlong * 24)()
        e = L.nc.ncmpi_inq_verif_state(self.ncid(a), o)
        if e != 0:
            return {"rc": L.errname(e)}

        def mode(fl):
            if fl & F_DEF:
                return "def"
            return "indep" if fl & F_INDEP else "coll"
        df, nf = o[0], o[8]
        r = {"dmode": mode(df), "dro": int(bool(df & F_RDONLY)), "dnew": int(bool(df & F_CREATE)),
             "dbits": int(bool(df & F_DEF)) + int(bool(df & F_INDEP)),
             "dfill": int(bool(df & F_FILL)), "nopen": o[7], "nvars": o[5], "ndims": o[3], "unlim": o[4]}
        if nf != -1:
            r.update(nbits=int(bool(nf & F_DEF)) + int(bool(nf & F_INDEP)), nmode=mode(nf), nro=int(bool(nf & F_RDONLY)), nnew=int(bool(nf & F_CREATE)),
                     nfill=int(bool(nf & F_FILL)), dirty=int(bool(nf & NC_NDIRTY)), numrecs=o[9],
                     lget=o[10], lput=o[11], nget=o[12], nput=o[13], asize=o[14], aused=o[15],
                     atail=o[16], old=o[17], xsz=o[18], begin_var=o[19], begin_rec=o[20], recsize=o[21],
                     safe=o[22])
        return r

    def obs_inq(self, a):
        nc = self.L.nc
        nd, nv, na, ud = c_int(-9), c_int(-9), c_int(-9), c_int(-9)
        e = nc.ncmpi_inq(self.ncid(a), byref(nd), byref(nv), byref(na), byref(ud))
        if e != 0:
            return {"rc": self.L.errname(e)}
        nm = ctypes.create_string_buffer(1024)
        names = []
        for v in range(nv.value):
            nc.ncmpi_inq_varname(self.ncid(a), v, nm)
            names.append(nm.value.decode("utf-8", "replace"))
        return {"ndims": nd.value, "nvars": nv.value, "ngatts": na.value, "unlim": ud.value, "vnames": names}

    def obs_files(self, a):
        """every handle the harness holds open: [label, ncid, ndims, nvars, nreqs, mode]"""
        nc = self.L.nc
        out = []
        for lab in sorted(getattr(self.ctx, "opened", set())):
            ncid = self.ctx.files[lab]
            nd, nv, na, ud, nr = c_int(-9), c_int(-9), c_int(-9), c_int(-9), c_int(-9)
            e = nc.ncmpi_inq(ncid, byref(nd), byref(nv), byref(na), byref(ud))
            e2 = nc.ncmpi_inq_nreqs(ncid, byref(nr))
            st = self.obs_st({"ncid": ncid})
            out.append({"f": lab, "ncid": ncid, "rc": self.L.errname(e or e2), "ndims": nd.value, "nvars": nv.value,
                        "nreqs": nr.value, "dmode": st.get("dmode", "?"), "nmode": st.get("nmode", "?"), "nopen": st.get("nopen", -1)})
        return out

    def obs_diskall(self, a):
        """every path the execution has used: does the file exist, how many dimensions does its header hold"""
        if self.rank != 0:
            return None
        out = []
        for lab in sorted(self.ctx.paths):
            p = self.ctx.paths[lab]
            ent = {"f": lab, "exists": int(os.path.exists(p)), "ndims": -1, "nvars": -1}
            if ent["exists"]:
                try:
                    h = cdfdecode.decode_header(open(p, "rb").read())
                    ent["ndims"] = len(h["dims"])
                    ent["nvars"] = len(h["vars"])
                except cdfdecode.FormatError:
                    ent["ndims"] = -2
            out.append(ent)
        return out

    def obs_nreqs(self, a):
        n = c_int(-9)
        e = self.L.nc.ncmpi_inq_nreqs(self.ncid(a), byref(n))
        return n.value if e == 0 else self.L.errname(e)

    def obs_numrecs(self, a):
        nc = self.L.nc
        ud = c_int(-1)
        e = nc.ncmpi_inq_unlimdim(self.ncid(a), byref(ud))
        if e != 0:
            return self.L.errname(e)
        if ud.value < 0:
            return -1
        ln = c_longlong(-1)
        nc.ncmpi_inq_dimlen(self.ncid(a), ud.value, byref(ln))
        return ln.value

    def obs_abuf(self, a):
        u, s = c_longlong(-9), c_longlong(-9)
        e1 = self.L.nc.ncmpi_inq_buffer_usage(self.ncid(a), byref(u))
        e2 = self.L.nc.ncmpi_inq_buffer_size(self.ncid(a), byref(s))
        if e1 != 0:
            return {"rc": self.L.errname(e1)}
        return {"usage": u.value, "size": s.value}

    def _filebytes(self, a):
        p = self.ctx.paths.get(str(a.get("f", 0)))
        if "path" in a and a.get("op") not in ("create", "open"):
            p = self.path(a["path"])
        if p is None or not os.path.exists(p):
            return None
        with open(p, "rb") as fh:
            return fh.read()

    def obs_disk(self, a):
        """independent decode of the bytes on disk (rank 0 only): schema, layout, data"""
        if self.rank != 0:
            return None
        b = self._filebytes(a)
        if b is None:
            return {"exists": 0}
        try:
            h = cdfdecode.decode(b, data=True)
        except cdfdecode.FormatError as ex:
            return {"exists": 1, "error": str(ex), "size": len(b)}
        o = cdfdecode.abstract(h)
        for v in o["vars"]:
            v["data"] = [proj(x) for x in v["data"]]
        for al in [o["gatts"]] + [v["atts"] for v in o["vars"]]:
            for at in al:
                if not isinstance(at[3], str):
                    at[3] = [proj(x) for x in at[3]]
        o.update(exists=1, size=len(b), problems=h["problems"] + cdfdecode.layout_problems(h, len(b)))
        return o

    def obs_disknumrecs(self, a):
        if self.rank != 0:
            return None
        b = self._filebytes(a)
        if b is None or len(b) < 8:
            return -1
        return struct.unpack(">Q", b[4:12])[0] if b[3] == 5 else struct.unpack(">I", b[4:8])[0]

    def obs_hdrsha(self, a):
        """digest of the header bytes with the record-count field blanked (rank 0)"""
        if self.rank != 0:
            return None
        b = self._filebytes(a)
        if b is None:
            return "absent"
        try:
            h = cdfdecode.decode_header(b)
        except cdfdecode.FormatError:
            return "undecodable"
        hb = bytearray(b[:h["xsz"]])
        n = 8 if h["fmt"] == 5 else 4
        hb[4:4 + n] = b"\0" * n
        return hashlib.sha256(bytes(hb)).hexdigest()[:16]

    def obs_layout(self, a):
        e, o = self.op_inq_layout(a)
        o["rc"] = self.L.errname(e)
        return o

    def obs_wlayout(self, a):
        """variable offsets and record size as reported by the library, as wide numbers (4 limbs, base 2^20)"""
        e, o = self.op_inq_layout(a)
        return {"rc": self.L.errname(e), "offs": [wide(x) for x in o["offs"]], "recsize": wide(o["recsize"]), "hsize": o["hsize"]}

    def obs_nzruns(self, a):
        """every maximal run of non-zero bytes in the data part of the (sparse) file, found through SEEK_DATA (rank 0)"""
        if self.rank != 0:
            return None
        p = self.ctx.paths.get(str(a.get("f", 0)))
        if p is None or not os.path.exists(p):
            return {"error": "absent"}
        with open(p, "rb") as fh:
            try:
                h = cdfdecode.decode_header(fh.read(1 << 20))
            except cdfdecode.FormatError as ex:
                return {"error": str(ex)}
        skip = min([v["begin"] for v in h["vars"]] or [0])
        runs = []
        fd = os.open(p, os.O_RDONLY)
        try:
            size = os.fstat(fd).st_size
            pos = skip
            while pos < size and len(runs) < 200:
                try:
                    d = os.lseek(fd, pos, os.SEEK_DATA)
                except OSError:
                    break
                hole = os.lseek(fd, d, os.SEEK_HOLE)
                d = max(d, skip)
                os.lseek(fd, d, os.SEEK_SET)
                blk = os.read(fd, min(hole - d, 1 << 22))
                i = 0
                while i < len(blk):
                    if blk[i] == 0:
                        i += 1
                        continue
                    j = i
                    while j < len(blk) and blk[j] != 0:
                        j += 1
                    runs.append({"off": wide(d + i), "hexb": ["%02x" % x for x in blk[i:j]]})
                    i = j
                pos = d + max(len(blk), 1)
        finally:
            os.close(fd)
        return {"runs": runs, "size": wide(size)}

    def obs_logfiles(self, a):
        """names left in the burst-buffer log directory (rank 0)"""
        if self.rank != 0:
            return None
        d = self.path(a.get("dir", "bb"))
        return sorted(os.listdir(d)) if os.path.isdir(d) else ["<no directory>"]

    def obs_rss(self, a):
        """peak resident set size of this process so far, MiB"""
        import resource
        return resource.getrusage(resource.RUSAGE_SELF).ru_maxrss // 1024

    def obs_filesize(self, a):
        if self.rank != 0:
            return None
        p = self.ctx.paths.get(str(a.get("f", 0)))
        return os.path.getsize(p) if p and os.path.exists(p) else -1

    def obs_sha(self, a):
        if self.rank != 0:
            return None
        b = self._filebytes(a)
        return hashlib.sha256(b).hexdigest()[:16] if b is not None else "absent"

    def obs_sha_other(self, a):
        """digest of the second file of the execution (label 1), rank 0"""
        if self.rank != 0:
            return None
        p = self.ctx.paths.get("1")
        if p is None or not os.path.exists(p):
            return "absent"
        with open(p, "rb") as fh:
            return hashlib.sha256(fh.read()).hexdigest()[:16]

    def obs_exists(self, a):
        p = self.ctx.paths.get(str(a.get("f", 0)))
        return int(bool(p and os.path.exists(p)))

    def obs_schema(self, a):
        """complete schema through the inquiry API, by id and by name"""
        L = self.L
        nc = L.nc
        ncid = self.ncid(a)
        nd, nv, na, ud = c_int(-9), c_int(-9), c_int(-9), c_int(-9)
        e = nc.ncmpi_inq(ncid, byref(nd), byref(nv), byref(na), byref(ud))
        if e != 0:
            return {"rc": L.errname(e)}
        nm = ctypes.create_string_buffer(1 << 17)
        o = {"unlim": ud.value, "dims": [], "vars": [], "gatts": self._atts(ncid, -1, na.value)}
        if not (0 <= nd.value <= 100000 and 0 <= nv.value <= 100000 and 0 <= na.value <= 100000):
            return {"rc": "IMPLAUSIBLE_COUNTS", "counts": [nd.value, nv.value, na.value]}
        for d in range(nd.value):
            ln = c_longlong(-1)
            nc.ncmpi_inq_dim(ncid, d, nm, byref(ln))
            o["dims"].append([nm.value.decode("utf-8", "replace"), ln.value])
        for v in range(nv.value):
            xt, vnd, vna = c_int(), c_int(), c_int()
            nc.ncmpi_inq_varndims(ncid, v, byref(vnd))
            if not (0 <= vnd.value <= 100000):
                o["vars"].append({"name": "?", "type": -1, "dimids": [-1], "atts": [], "ndims": vnd.value})
                continue
            dimids = (c_int * max(1, vnd.value))()
            nc.ncmpi_inq_var(ncid, v, nm, byref(xt), byref(vnd), dimids, byref(vna))
            o["vars"].append({"name": nm.value.decode("utf-8", "replace"), "type": xt.value,
                              "dimids": [dimids[i] for i in range(vnd.value)],
                              "atts": self._atts(ncid, v, vna.value)})
        # by-name lookups of every name the execution has used so far
        byname = []
        for s in sorted(self.ctx.names):
            i1, i2 = c_int(-9), c_int(-9)
            e1 = nc.ncmpi_inq_dimid(ncid, s.encode(), byref(i1))
            e2 = nc.ncmpi_inq_varid(ncid, s.encode(), byref(i2))
            ent = {"name": s, "norm": unicodedata.normalize("NFC", s), "dim": i1.value if e1 == 0 else L.errname(e1),
                   "var": i2.value if e2 == 0 else L.errname(e2), "att": []}
            for v in range(-1, nv.value):
                i3 = c_int(-9)
                e3 = nc.ncmpi_inq_attid(ncid, v, s.encode(), byref(i3))
                ent["att"].append(i3.value if e3 == 0 else L.errname(e3))
            byname.append(ent)
        o["byname"] = byname
        return o

    def _atts(self, ncid, v, n):
        nc = self.L.nc
        nm = ctypes.create_string_buffer(1 << 17)
        out = []
        for i in range(n):
            e = nc.ncmpi_inq_attname(ncid, v, i, nm)
            if e != 0:
                out.append({"rc": self.L.errname(e)})
                continue
            e, g = self._get_att(ncid, v, nm.value)
            if e != 0 and "type" not in g:
                out.append([nm.value.decode("utf-8", "replace"), -1, -1, "ERR:" + self.L.errname(e)])
                continue
            out.append([nm.value.decode("utf-8", "replace"), g.get("type"), g.get("len"), g.get("vals")])
        return out

    def obs_quiet(self, a):
        """library-owned resources at quiescence"""
        sz = c_longlong(-1)
        e = self.L.nc.ncmpi_inq_malloc_size(byref(sz))
        o = {"heap": sz.value if e == 0 else self.L.errname(e)}
        if self.L.shim is not None:
            bal = (c_longlong * 8)()
            self.L.shim.verif_shim_balance(bal)
            o.update(types=bal[0], infos=bal[1], comms=bal[2], files=bal[3])
        return o

    def obs_io(self, a):
        """PMPI shim: MPI-IO data transfers issued by this rank since the fault was armed; did it fire"""
        if self.L.shim is None:
            return None
        bal = (c_longlong * 8)()
        self.L.shim.verif_shim_balance(bal)
        return {"count": bal[4], "fired": bal[5]}

    def obs_mpi(self, a):
        """PMPI shim: MPI calls made by this rank since the previous drain"""
        if self.L.shim is None:
            return None
        buf = ctypes.create_string_buffer(1 << 16)
        self.L.shim.verif_shim_drain(buf, len(buf))
        return json.loads(buf.value.decode() or "[]")

    def op_shim(self, a):
        """configure the PMPI shim (fault injection)"""
        if self.L.shim is None:
            return "NO_SHIM", {}
        cls = a.get("cls", 0)
        if isinstance(cls, str):
            cls = self.L.shim.verif_shim_errclass(cls.encode())
        self.L.shim.verif_shim_inject(a.get("kth", -1), cls, a.get("rank", -1))
        self.stop_on_fire = bool(a.get("stop"))
        return 0, {}


# give Ctx the helper used by end_exec
def _open_labels(self):
    return getattr(self, "opened", set())


Ctx.open_labels = _open_labels

if __name__ == "__main__":
    Driver(sys.argv[1], sys.argv[2], sys.argv[3]).run()
