"""Translation of MP-model histories (TLC output) into multi-rank driver scripts."""
import random

OBS = ["numrecs", "disknumrecs", "disk", "mpi"]
FILL_INT = "i:-2147483647"
W = 2


def fixture(safe=False, info=None, fmt=None):
    S = lambda **k: dict(k, setup=1)
    return [S(op="create", path="a.nc", cmode=["CLOBBER"] + ([fmt] if fmt else []), info=info),
            S(op="def_dim", name="t", len=0), S(op="def_dim", name="x", len=W),
            S(op="def_var", name="F", xtype="int", dims=[1]),
            S(op="def_var", name="R", xtype="int", dims=[0, 1]),
            S(op="def_var_fill", v=1, nofill=0),
            S(op="enddef", obs=["mpi"])]


INVALID = {
    "einvalcoords": {"start": [0, 5], "count": [1, 1]},
    "eedge": {"start": [0, 1], "count": [1, 5]},
    "enotvar": {"v": 99, "start": [0, 0], "count": [1, 2]},
    "estride": {"form": "vars", "start": [0, 0], "count": [1, 2], "stride": [1, 0]},
    "enegcnt": {"start": [0, 0], "count": [1, -1]},
}


def arg_of(a, rw):
    c = a["cls"]
    if c == "valid":
        d = {"start": [a["rec"], 0], "count": [a["nrec"], W]}
        if rw == "put":
            d["vals"] = [x for row in a["tok"] for x in row]
        else:
            d["n"] = a["nrec"] * W
        return d
    if c == "zero":
        d = {"start": [0, 0], "count": [0, W]}
    else:
        d = dict(INVALID[c])
        if rw == "get":
            # reads are bounded by the current record count: keep the record dimension out of the picture
            d["count"] = [0] + list(d["count"][1:])
    if rw == "put":
        d["vals"] = [7] * (W * max(1, abs(d["count"][0])) * 3)
    else:
        d["n"] = W * 3
    return d


class Translator:
    def __init__(self, rng, np, readback=True, safe=False):
        self.safe = safe
        self.rng = rng
        self.np = np
        self.highest = 0
        self.indep = False
        self.readback = readback
        self.pending = {p: {} for p in range(np)}

    def top(self, a):
        return a["rec"] + a["nrec"] if a["cls"] == "valid" else 0

    def coll_step(self, op, A, extra=None):
        """collective put/get with per-rank arguments A: {rank: arg}"""
        if op == "get":
            # ENVIRONMENT: Open MPI 4.1.4's OMPIO returns zeros for part of a collective read when the regions of two
            # ranks overlap PARTIALLY (reproduced with MPI_File_read_at_all alone, no PnetCDF involved; ROMIO is right).
            # The harness therefore never asks for that: a range partially overlapping an earlier rank's range is replaced
            # by that range (identical regions and disjoint regions are read correctly).  The trace records what was
            # actually requested, so the specification validates the adjusted step.
            A = {k: dict(v) for k, v in A.items()}
            seen = []
            for p in range(self.np):
                a = A[str(p)]
                if a["cls"] != "valid" or a["nrec"] == 0:
                    continue
                lo, hi = a["rec"], a["rec"] + a["nrec"]
                for (l2, h2) in seen:
                    if lo < h2 and l2 < hi and (lo, hi) != (l2, h2):
                        a["rec"], a["nrec"] = l2, h2 - l2
                        lo, hi = l2, h2
                        break
                if (lo, hi) not in seen:
                    seen.append((lo, hi))
        args = {p: arg_of(A[str(p)], op) for p in range(self.np)}
        base = {"op": op, "v": 1, "form": "vara", "mode": "coll", "itype": "int", "obs": OBS}
        if op == "put" and self.rng.random() < 0.25:
            # values passed as long long; on some ranks one of them does not fit the variable's type: NC_ERANGE there,
            # the fill value is stored for that element, the record count grows all the same
            base["itype"] = "longlong"
            for p in range(self.np):
                a = args[p]
                if A[str(p)]["cls"] == "valid" and a.get("vals") and self.rng.random() < 0.5:
                    k = self.rng.randrange(len(a["vals"]))
                    a["mvals"] = list(a["vals"])
                    a["mvals"][k] = "i:-2147483647"
                    a["vals"] = list(a["vals"])
                    a["vals"][k] = (1 << 40) + 5
                    a["erange"] = 1
        st = dict(base)
        st.update(args[0])
        pr = {}
        for p in range(1, self.np):
            d = dict(args[p])
            for k in ("stride", "vals", "n", "form", "v", "mvals", "erange"):
                if k in st and k not in d:
                    d[k] = base.get(k)       # restore the common value (None removes the key)
            pr[str(p)] = d
        for k in ("form", "v"):
            if k in args[0]:
                for p in pr:
                    pr[p].setdefault(k, base[k])
        st["pr"] = pr
        return st

    def get_all(self):
        """every rank reads all existing records"""
        if self.highest == 0 or self.indep:
            return []
        A = {str(p): {"cls": "valid", "rec": 0, "nrec": self.highest, "tok": []} for p in range(self.np)}
        return [self.coll_step("get", A)]

    def steps(self, hist):
        out = []
        for c in hist:
            k = c["c"]
            if k == "coll_put":
                out.append(self.coll_step("put", c["A"]))
                if not (self.safe and any(c["A"][str(p)]["cls"] not in ("valid", "zero") for p in range(self.np))):
                    self.highest = max([self.highest] + [self.top(c["A"][str(p)]) for p in range(self.np)])
                out += self.get_all() if self.readback and self.rng.random() < 0.5 else []
            elif k == "coll_get":
                out.append(self.coll_step("get", c["A"]))
            elif k == "indep_put":
                a = arg_of(c["a"], "put")
                a.update(op="put", v=1, form="vara", mode="indep", itype="int", ranks=[c["p"]], obs=OBS)
                out.append(a)
                self.highest = max(self.highest, self.top(c["a"]))
            elif k == "begin_indep":
                out.append({"op": "begin_indep", "obs": OBS})
                self.indep = True
            elif k in ("end_indep", "sync", "sync_numrecs"):
                out.append({"op": k, "obs": OBS})
                if k == "end_indep":
                    self.indep = False
                out += self.get_all() if self.readback else []
            elif k == "redef_enddef":
                out.append({"op": "redef", "obs": OBS})
                out.append({"op": "enddef", "obs": OBS})
                self.indep = False
                out += self.get_all() if self.readback else []
            elif k == "reopen":
                out.append({"op": "close", "obs": ["disknumrecs", "disk", "mpi"]})
                out.append({"op": "open", "path": "a.nc", "omode": ["WRITE"], "obs": OBS})
                self.indep = False
                out += self.get_all() if self.readback else []
            elif k == "post":
                a = arg_of(c["a"], "put")
                a.update(op="put", kind=self.rng.choice(["i", "i", "b"]) if False else "i", req=c["lab"], v=1, form="vara", itype="int",
                         ranks=[c["p"]], obs=["numrecs"])
                out.append(a)
                self.pending[c["p"]][c["lab"]] = c["a"]
            elif k == "wait_all":
                pr = {}
                tops = []
                for p in range(self.np):
                    labs = list(c["S"][str(p)])
                    self.rng.shuffle(labs)
                    reqs = labs
                    if set(labs) == set(self.pending[p]) and self.rng.random() < 0.4:
                        pr[str(p)] = {"special": "ALL", "reqs": None}
                    else:
                        pr[str(p)] = {"reqs": reqs}
                    for lb in labs:
                        tops.append(self.top(self.pending[p].pop(lb)))
                st = {"op": "wait", "mode": "coll", "obs": OBS}
                st.update(pr.pop("0"))
                st = {kk: vv for kk, vv in st.items() if vv is not None}
                for p in pr:
                    if "special" in st and "special" not in pr[p]:
                        pr[p]["special"] = None
                    if "reqs" in st and "reqs" not in pr[p]:
                        pr[p]["reqs"] = None
                st["pr"] = pr
                out.append(st)
                self.highest = max([self.highest] + tops)
                out += self.get_all() if self.readback and self.rng.random() < 0.5 else []
            elif k == "wait":
                p = c["p"]
                labs = list(c["S"])
                for lb in labs:
                    self.highest = max(self.highest, self.top(self.pending[p].pop(lb)))
                out.append({"op": "wait", "mode": "indep", "reqs": labs, "ranks": [p], "obs": OBS})
            elif k == "fill_rec":
                out.append({"op": "fill_var_rec", "v": 1, "rec": c["rec"], "fill": FILL_INT, "obs": OBS})
                self.highest = max(self.highest, c["rec"] + 1)
                out += self.get_all() if self.readback and self.rng.random() < 0.5 else []
            else:
                raise ValueError(k)
        return out
