"""C15 -- out-of-range requests are rejected and writes stay inside their target.
spec/Data.tla: SubErrs (the documented argument errors with their precedence) decides the return code of every
(start,count,stride) tuple within and beyond small shapes; Trace_Data validates the code and, after every request,
the independently decoded file: rejected and zero-length requests change nothing, accepted ones change only the
addressed elements of the addressed variable (every other element of every variable is compared too) and no byte of
the header except the record count."""
import random, itertools, json
import vlib, datagen, datacheck

PID = "C15"
DIMS = [("t", 0), ("a3", 3), ("b2", 2)]
VARS = [("A", ["a3"], "int"), ("B", ["b2", "a3"], "short"), ("C", ["t", "b2"], "int"), ("D", ["b2", "b2", "b2"], "double")]
MAXREC = 6
OBS = ["nreqs", "numrecs", "disk", "hdrsha"]


def prod(l):
    p = 1
    for x in l:
        p *= x
    return p


def tuples(shape, isrec, strides, reduced=False):
    rng_ = []
    for d, n in enumerate(shape):
        if isrec and d == 0:
            ss, cs = [-1, 0, 1, 2, 3], [-1, 0, 1, 2]
        elif reduced:
            ss, cs = [-1, 0, n - 1, n, n + 1], [-1, 0, 1, n, n + 1]
        else:
            ss, cs = list(range(-1, n + 2)), list(range(-1, n + 2))
        rng_.append(list(itertools.product(ss, cs)))
    for combo in itertools.product(*rng_):
        for st in strides:
            yield [c[0] for c in combo], [c[1] for c in combo], st


def build(tier, rng):
    """executions: a fixture with data in every variable (two records), then a long list of single requests"""
    vt = datagen.vartab(VARS, DIMS, MAXREC)
    shapes = [[dict(DIMS)[d] for d in vd] for _, vd, _ in VARS]
    reqs = []
    for v, (name, vd, xt) in enumerate(VARS):
        isrec = vd[0] == "t"
        shape = shapes[v]
        nd = len(shape)
        strides = [None, [1] * nd, [2] * nd, [0] * nd, [-1] * nd, [max(1, shape[-1])] * nd]
        if tier != "quick":
            strides += [[1] * (nd - 1) + [2], [2] + [1] * (nd - 1)] if nd > 1 else []
        for start, count, st in tuples(shape, isrec, strides, reduced=(nd == 3)):
            reqs.append((v, start, count, st))
    rng.shuffle(reqs)

    def plausible(r):
        """sampling stratum only (never an oracle): requests that look acceptable and non-empty -- few among the >100000
        tuples, and the ones that must change exactly the addressed elements; the quick tier keeps all of them"""
        v, start, count, st = r
        shape = shapes[v]
        s = st or [1] * len(shape)
        if not (all(x >= 0 for x in start) and all(x > 0 for x in count) and all(x > 0 for x in s)):
            return False
        for d in range(len(shape)):
            lim = MAXREC if (VARS[v][1][0] == "t" and d == 0) else shape[d]
            if start[d] + (count[d] - 1) * s[d] >= lim:
                return False
        return True
    if tier == "quick":
        good = [r for r in reqs if plausible(r)]
        rest = [r for r in reqs if not plausible(r)]
        reqs = good + good + rest[:9000 - 2 * len(good)]      # (each plausible one twice: put and get are drawn at random)
        rng.shuffle(reqs)
    execs = []
    tok = [1]

    def fixture():
        st = datagen.fixture(VARS, DIMS)
        # every variable fully written (two records of C), so that any stray write shows
        st.append({"op": "put", "v": 0, "form": "var", "mode": "coll", "itype": "int", "vals": [101, 102, 103], "obs": OBS})
        st.append({"op": "put", "v": 1, "form": "var", "mode": "coll", "itype": "short", "vals": [111, 112, 113, 114, 115, 116], "obs": OBS})
        st.append({"op": "put", "v": 2, "form": "vara", "mode": "coll", "itype": "int", "start": [0, 0], "count": [2, 2], "vals": [121, 122, 123, 124], "obs": OBS})
        st.append({"op": "put", "v": 3, "form": "var", "mode": "coll", "itype": "double", "vals": [91, 92, 93, 94, 95, 96, 97, 98], "obs": OBS})
        return st
    chunk = 150
    for i in range(0, len(reqs), chunk):
        steps = fixture()
        strict = (i // chunk) % 4 == 3
        for (v, start, count, st) in reqs[i:i + chunk]:
            rw = rng.choice(["put", "get"])
            kind = rng.choice(["blocking", "blocking", "blocking", "i"])
            xt = VARS[v][2]
            it = datagen.NATIVE[xt]
            n = prod([max(c, 0) for c in count])
            a = {"op": rw, "v": v, "itype": it, "start": start, "count": count}
            if st is None:
                a["form"] = rng.choice(["vara", "vara", "varn"])
                if a["form"] == "varn":
                    a = {"op": rw, "v": v, "itype": it, "form": "varn", "starts": [start], "counts": [count]}
            else:
                a["form"] = rng.choice(["vars", "varm"])
                a["stride"] = st
            if rw == "put":
                tok[0] = tok[0] % 80 + 1
                a["vals"] = [tok[0]] * max(n, 1) if n == 0 else [tok[0] + (k % 9) for k in range(n)]
                if n == 0:
                    a["vals"] = []
                    a["padbuf"] = 4
            else:
                a["n"] = n
            if kind == "i":
                a.update(kind="i", req="q%d" % len(steps))
            else:
                a["mode"] = "coll"
            a["obs"] = OBS
            steps.append(a)
            if kind == "i":
                steps.append({"op": "wait", "mode": "coll", "special": "ALL", "obs": OBS})
        execs.append({"x": "e%d" % (i // chunk), "steps": steps,
                      "env": {"PNETCDF_RELAX_COORD_BOUND": "1"}})
    # the same requests on two processes, collective, safe mode off: rank 0 takes part with a zero-length request, rank 1
    # issues the (possibly rejected) request.  A rejected rank must take part with NOTHING: its request may not be executed.
    reqs2 = reqs[:1500] if tier == "quick" else reqs[:25000]
    for i in range(0, len(reqs2), chunk):
        steps = fixture()
        for (v, start, count, st) in reqs2[i:i + chunk]:
            rw = rng.choice(["put", "put", "get"])
            xt = VARS[v][2]
            it = datagen.NATIVE[xt]
            nd = len(start)
            n = prod([max(c, 0) for c in count])
            form = rng.choice(["vara", "vara", "varn"]) if st is None else rng.choice(["vars", "varm"])
            zero = {"op": rw, "v": v, "itype": it, "form": form, "mode": "coll", "obs": OBS}
            mine = {}
            if form == "varn":
                zero.update(starts=[[0] * nd], counts=[[0] * nd])
                mine.update(starts=[start], counts=[count])
            else:
                zero.update(start=[0] * nd, count=[0] * nd)
                mine.update(start=start, count=count)
                if st is not None:
                    zero["stride"] = [1] * nd
                    mine["stride"] = st
            if rw == "put":
                tok[0] = tok[0] % 80 + 1
                zero.update(vals=[], padbuf=4)
                mine["vals"] = [tok[0] + (k % 9) for k in range(n)]
                if n == 0:
                    mine["padbuf"] = 4
                else:
                    mine["padbuf"] = None
            else:
                zero["n"] = 0
                mine["n"] = n
            zero["pr"] = {"1": mine}
            steps.append(zero)
        execs.append({"x": "p%d" % (i // chunk), "np": 2, "steps": steps, "env": {"PNETCDF_RELAX_COORD_BOUND": "1"}})
    return execs, vt, len(reqs)


def run(tier, seed):
    rng = random.Random(seed)
    mc = datacheck.design_check(tier)
    execs, vt, nreq = build(tier, rng)
    import c01
    e1 = [e for e in execs if e.get("np", 1) == 1]
    e2 = [e for e in execs if e.get("np", 1) == 2]
    r = datacheck.run(PID, tier, seed, e1, mc, header=lambda evs: {"vars": vt})
    r2 = datacheck.run(PID, tier, seed, e2, mc, header=lambda evs: {"vars": vt}, to_events=c01.serial)
    r["violations"] += r2["violations"]
    for k in ("traces_validated_against_impl", "evaluations", "distinct_nontrivial", "trace_states", "rejected_first_pass"):
        r["coverage"][k] += r2["coverage"][k]
    r["coverage"].update({"rule": "every (start,count[,stride]) with start,count in -1..dim+1 (record dimension: start -1..3, count -1..2) and "
                                  "stride in {none,1,2,0,-1,dim} for shapes [3], [2][3], [t][2] (two records present) and [2][2][2] (reduced "
                                  "ranges), as put or get, blocking (vara/vars/varm/varn) or nonblocking (+wait_all); quick samples 9000 of "
                                  "them, thorough runs all with per-dimension stride variants; after each request the whole file is decoded; "
                                  "the same requests again (quick: 1500 of them) as blocking collective calls on two processes where rank 0 "
                                  "takes part with a zero-length request and rank 1 issues the request",
                          "requests": nreq, "exhaustive": tier == "thorough"})
    return r


def replay(path):
    vt = datagen.vartab(VARS, DIMS, MAXREC)
    r = json.load(open(path))
    if r["exec"].get("np", 1) == 1:
        return datacheck.replay(PID, path, header=lambda evs: {"vars": vt})
    import c01
    bld = vlib.build("dbg")
    res, acc, rej, _ = vlib.run_validate(bld, [r["exec"]], datacheck.MODULE, datacheck.CFG_DEV, np=2, par=1,
                                         header=lambda evs: {"vars": vt}, to_events=c01.serial)
    if rej:
        print(rej[0][2][:800])
        print("VIOLATION property=%s replay=%s" % (PID, path))
        return 1
    print("accepted")
    return 0
