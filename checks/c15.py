"""C15 -- out-of-range requests are rejected and writes stay inside their target.
spec/Data.tla: SubErrs (the documented argument errors with their precedence) decides the return code of every
(start,count,stride) tuple within and beyond small shapes; Trace_Data validates the code and, after every request,
the independently decoded file: rejected and zero-length requests change nothing, accepted ones change only the
addressed elements of the addressed variable (every other element of every variable is compared too) and no byte of
the header except the record count."""
import random, itertools, json
import vlib, datagen, datacheck

PID = "C15"
DIMS = [("t", 0), ("a3", 3), ("b2", 2)]
VARS = [("A", ["a3"], "int"), ("B", ["b2", "a3"], "short"), ("C", ["t", "b2"], "int"), ("D", ["b2", "b2", "b2"], "double")]
MAXREC = 6
OBS = ["nreqs", "numrecs", "disk", "hdrsha"]


def prod(l):
    p = 1
    for x in l:
        p *= x
    return p


def tuples(shape, isrec, strides, reduced=False):
    rng_ = []
    for d, n in enumerate(shape):
        if isrec and d == 0:
            ss, cs = [-1, 0, 1, 2, 3], [-1, 0, 1, 2]
        elif reduced:
            ss, cs = [-1, 0, n - 1, n, n + 1], [-1, 0, 1, n, n + 1]
        else:
            ss, cs = list(range(-1, n + 2)), list(range(-1, n + 2))
        rng_.append(list(itertools.product(ss, cs)))
    for combo in itertools.product(*rng_):
        for st in strides:
            yield [c[0] for c in combo], [c[1] for c in combo], st


def build(tier, rng):
    """executions: a fixture with data in every variable (two records), then a long list of single requests"""
    vt = datagen.vartab(VARS, DIMS, MAXREC)
    shapes = [[dict(DIMS)[d] for d in vd] for _, vd, _ in VARS]
    reqs = []
    for v, (name, vd, xt) in enumerate(VARS):
        isrec = vd[0] == "t"
        shape = shapes[v]
        nd = len(shape)
        strides = [None, [1] * nd, [2] * nd, [0] * nd, [-1] * nd, [max(1, shape[-1])] * nd]
        if tier != "quick":
            strides += [[1] * (nd - 1) + [2], [2] + [1] * (nd - 1)] if nd > 1 else []
        for start, count, st in tuples(shape, isrec, strides, reduced=(nd == 3)):
            reqs.append((v, start, count, st))
    rng.shuffle(reqs)
    if tier == "quick":
        reqs = reqs[:9000]
    execs = []
    tok = [1]

    def fixture():
        st = datagen.fixture(VARS, DIMS)
        # every variable fully written (two records of C), so that any stray write shows
        st.append({"op": "put", "v": 0, "form": "var", "mode": "coll", "itype": "int", "vals": [101, 102, 103], "obs": OBS})
        st.append({"op": "put", "v": 1, "form": "var", "mode": "coll", "itype": "short", "vals": [111, 112, 113, 114, 115, 116], "obs": OBS})
        st.append({"op": "put", "v": 2, "form": "vara", "mode": "coll", "itype": "int", "start": [0, 0], "count": [2, 2], "vals": [121, 122, 123, 124], "obs": OBS})
        st.append({"op": "put", "v": 3, "form": "var", "mode": "coll", "itype": "double", "vals": [91, 92, 93, 94, 95, 96, 97, 98], "obs": OBS})
        return st
    chunk = 150
    for i in range(0, len(reqs), chunk):
        steps = fixture()
        strict = (i // chunk) % 4 == 3
        for (v, start, count, st) in reqs[i:i + chunk]:
            rw = rng.choice(["put", "get"])
            kind = rng.choice(["blocking", "blocking", "blocking", "i"])
            xt = VARS[v][2]
            it = datagen.NATIVE[xt]
            n = prod([max(c, 0) for c in count])
            a = {"op": rw, "v": v, "itype": it, "start": start, "count": count}
            if st is None:
                a["form"] = rng.choice(["vara", "vara", "varn"])
                if a["form"] == "varn":
                    a = {"op": rw, "v": v, "itype": it, "form": "varn", "starts": [start], "counts": [count]}
            else:
                a["form"] = rng.choice(["vars", "varm"])
                a["stride"] = st
            if rw == "put":
                tok[0] = tok[0] % 80 + 1
                a["vals"] = [tok[0]] * max(n, 1) if n == 0 else [tok[0] + (k % 9) for k in range(n)]
                if n == 0:
                    a["vals"] = []
                    a["padbuf"] = 4
            else:
                a["n"] = n
            if kind == "i":
                a.update(kind="i", req="q%d" % len(steps))
            else:
                a["mode"] = "coll"
            a["obs"] = OBS
            steps.append(a)
            if kind == "i":
                steps.append({"op": "wait", "mode": "coll", "special": "ALL", "obs": OBS})
        execs.append({"x": "e%d" % (i // chunk), "steps": steps,
                      "env": {"PNETCDF_RELAX_COORD_BOUND": "1"}})
    return execs, vt, len(reqs)


def run(tier, seed):
    rng = random.Random(seed)
    mc = datacheck.design_check(tier)
    execs, vt, nreq = build(tier, rng)
    r = datacheck.run(PID, tier, seed, execs, mc, header=lambda evs: {"vars": vt})
    r["coverage"].update({"rule": "every (start,count[,stride]) with start,count in -1..dim+1 (record dimension: start -1..3, count -1..2) and "
                                  "stride in {none,1,2,0,-1,dim} for shapes [3], [2][3], [t][2] (two records present) and [2][2][2] (reduced "
                                  "ranges), as put or get, blocking (vara/vars/varm/varn) or nonblocking (+wait_all); quick samples 9000 of "
                                  "them, thorough runs all with per-dimension stride variants; after each request the whole file is decoded",
                          "requests": nreq, "exhaustive": tier == "thorough"})
    return r


def replay(path):
    vt = datagen.vartab(VARS, DIMS, MAXREC)
    return datacheck.replay(PID, path, header=lambda evs: {"vars": vt})
