"""C06 -- redefinition preserves existing data; abort is all-or-nothing.
spec/File.tla (Redef saves the schema and data; Enddef keeps every old variable's data -- action property OldDataKept;
Abort restores / removes), Trace_File (data decoded from the file after the redefinition must still be the tokens written
before it; the file digest after an aborted redefinition equals the digest when define mode was re-entered)."""
import random
import vlib, filegen, filecheck

PID = "C06"


def interesting(h):
    """histories in which a successful redef happens after data was written"""
    wrote = False
    for c in h:
        if c["c"] in ("put", "fill_rec") and c["rc"] == "NC_NOERR":
            wrote = True
        if c["c"] == "redef" and c["rc"] == "NC_NOERR" and wrote:
            return True
    return False


def grow_scenarios(rng, tier):
    """deterministic redefinition deltas on a file with fixed + record variables and several records: small and large
    header growth, new fixed variable, new record variable (record size changes; 1 -> 2 record variables ends packing),
    with small data-movement units so that the multi-round path is taken"""
    ex = []
    n = 0
    for fmt in [1, 2, 5]:
        for nrecvars in [1, 2]:
            for delta in ["att_small", "att_big", "fixvar", "recvar", "both", "att_mid_recvar"]:
                for np_, mu in [(1, None), (2, "64"), (3, "1000"), (4, "24")]:
                  for gap, fillnew in [(False, False), (True, False), (False, True), (True, True)]:
                      if tier == "quick" and rng.random() < 0.8:
                          continue
                      cm = ["CLOBBER"] + ([filegen.FMT[fmt]] if filegen.FMT[fmt] else [])
                      O = filegen.OBS
                      st = [{"op": "create", "path": "a.nc", "cmode": cm, "fmtno": fmt, "obs": ["exists"],
                             "info": {"nc_header_align_size": "4", "nc_record_align_size": "4"} if n % 2 else None},
                            {"op": "def_dim", "name": "t", "norm": "t", "len": 0}, {"op": "def_dim", "name": "x", "norm": "x", "len": 3},
                            {"op": "def_dim", "name": "y", "norm": "y", "len": 5},
                            {"op": "def_var", "name": "f1", "norm": "f1", "xtype": "int", "dims": [2]},
                            {"op": "def_var", "name": "r1", "norm": "r1", "xtype": "short", "dims": [0, 1]}]
                      if nrecvars == 2:
                          st.append({"op": "def_var", "name": "r2", "norm": "r2", "xtype": "double", "dims": [0, 2]})
                      if gap:   # free space between the fixed and the record section: header growth is absorbed there
                          st.append({"op": "_enddef", "h_minfree": 0, "v_align": 4, "v_minfree": 400, "r_align": 4, "want_h_align": 0, "want_r_align": 0})
                      else:
                          st.append({"op": "enddef", "want_h_align": 0, "want_r_align": 0})
                      tr = filegen.Translator(rng, fmt=fmt, np=np_)
                      tr.dims = [["t", 0], ["x", 3], ["y", 5]]
                      tr.vars = [["f1", "int", [2]], ["r1", "short", [0, 1]]] + ([["r2", "double", [0, 2]]] if nrecvars == 2 else [])
                      tr.mode = "data"
                      tok = 1
                      st.append(tr.put_step(0, 0, [tok + k for k in range(5)]))
                      nrec = rng.choice([2, 3, 4])
                      for r in range(nrec):
                          tok += 10
                          st.append(tr.put_step(1, r, [tok + k for k in range(3)]))
                          if nrecvars == 2:
                              st.append(tr.put_step(2, r, [tok + 5 + k for k in range(5)]))
                      tr.numrecs = nrec
                      st.append({"op": "redef"})
                      if delta == "att_mid_recvar":
                          st.append({"op": "put_att", "v": -1, "name": "mid", "norm": "mid", "xtype": "char", "itype": "text", "vals": "m" * 160, "n": 160})
                      if fillnew:
                          st.append({"op": "set_fill", "fill": "FILL"})
                      if delta in ("att_small", "both"):
                          st.append({"op": "put_att", "v": -1, "name": "g", "norm": "g", "xtype": "char", "itype": "text", "vals": "abcdefgh", "n": 8})
                      if delta == "att_big":
                          st.append({"op": "put_att", "v": 0, "name": "big", "norm": "big", "xtype": "char", "itype": "text", "vals": "z" * 2100, "n": 2100})
                      if delta in ("fixvar", "both"):
                          st.append({"op": "def_var", "name": "f2", "norm": "f2", "xtype": "double", "dims": [2, 1]})
                          tr.vars.append(["f2", "double", [2, 1]])
                      if delta in ("recvar", "both", "att_mid_recvar"):
                          st.append({"op": "def_var", "name": "r3", "norm": "r3", "xtype": "int", "dims": [0, 1]})
                          tr.vars.append(["r3", "int", [0, 1]])
                      st.append({"op": "enddef"})
                      tr.mode = "data"
                      st += tr.read_all()
                      st.append({"op": "close"})
                      for s in st:
                          s.setdefault("obs", O)
                      ex.append({"x": "g%d" % n, "np": np_, "steps": st, "delta": delta, "gap": gap, "lenv": {"PNETCDF_VERIF_MOVE_UNIT": mu} if mu else None})
                      n += 1
    return ex


def run(tier, seed):
    rng = random.Random(seed)
    mc = filecheck.design_check()
    n = 300 if tier == "quick" else 2500
    execs = []
    i = 0
    for cfg, fmt in [("cfg/File_sim_ok.cfg", 1), ("cfg/File_sim_ok2.cfg", 2), ("cfg/File_sim_ok5.cfg", 5)]:
        ws = [h for h in filecheck.walks(cfg, n * 4, 16, seed + 200 + i) if interesting(h)][:n // 3 + 1]
        for h in ws:
            np_ = [1, 2, 3][i % 3]
            info = [None, {"nc_header_align_size": "4"}, {"nc_var_align_size": "8", "nc_record_align_size": "4"}][i % 3]
            tr = filegen.Translator(rng, fmt=fmt, np=np_, info=info)
            execs.append({"x": "w%d" % i, "np": np_, "steps": tr.steps(h, filecheck.NAMES),
                          "lenv": {"PNETCDF_VERIF_MOVE_UNIT": rng.choice(["16", "64", "1000"])} if i % 2 else None})
            i += 1
    g = grow_scenarios(rng, tier)
    return filecheck.run(PID, tier, seed, execs + g, mc,
                         "random walks of File_MC containing a redefinition after data was written (new dimensions, variables, "
                         "attributes, renames, fill switches; enddef or abort), on 1-3 processes, small header alignment so that every "
                         "growth moves data, data-movement unit forced down to 16..1000 bytes (hook 3); plus %d deterministic growth "
                         "scenarios (formats x 1|2 record variables x {small/large attribute, new fixed, new record variable, both} "
                         "x processes x move unit)" % len(g),
                         assumptions=["hook 3 (PNETCDF_VERIF_MOVE_UNIT) only lowers the per-round chunk of move_file_block"])


def replay(path):
    return filecheck.replay(PID, path)
