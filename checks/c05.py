"""C05 -- record count stays coherent across processes, memory and file header.
spec/MP.tla (invariants Coherent, Readable, action property Monotone), MP_MC (design check; generator),
Trace_MP (validation of every rank's record count, the header field and the record data after each step)."""
import random, json
import vlib, mpgen

PID = "C05"
MODULE = "Trace_MP.tla"


def walks(module, cfg, nwalk, depth, seed):
    sim = vlib.tlc_emit(module, cfg, simulate=max(1, nwalk // 4 + 1), depth=depth + 2, seed=seed + 1, workers=4, timeout=900)
    seen, w = set(), []
    for it in sim["items"]:
        k = json.dumps(it["h"], sort_keys=True)
        if k not in seen:
            seen.add(k)
            w.append(it["h"])
    if len(w) < nwalk // 4:
        raise vlib.InfraError("simulation produced %d walks\n%s" % (len(w), sim["out"][-2000:]))
    return w[:nwalk]


def sig_of(tr, idx, status, steps):
    if idx >= len(tr):
        nxt = [s for s in steps if True][len(tr)] if len(tr) < len(steps) else {}
        return "call=%s;mode=%s;status=%s;rc=ABNORMAL" % (nxt.get("op"), nxt.get("mode"), status)
    ev = tr[idx]
    rk = ev.get("rk", [])
    return "call=%s;mode=%s;kind=%s;rcs=%s;numrecs=%s;disk=%s;status=%s" % (
        ev.get("e"), rk[0]["a"].get("mode") if rk else None, rk[0]["a"].get("kind") if rk else None,
        ",".join(r.get("rc", "?") for r in rk), ",".join(str(r.get("obs", {}).get("numrecs")) for r in rk),
        rk[0].get("obs", {}).get("disknumrecs") if rk else None, status)


def run_mp(pid, tier, seed, execs, cfg, mc, rule, extra=None, env=None, sink=None):
    bld = vlib.build("dbg")
    header = lambda evs: {"np": max([len(e.get("rk", [])) for e in evs if "rk" in e] + [1])}
    # one trace file per process count (N is a constant of the specification)
    bynp = {}
    for e in execs:
        bynp.setdefault(e["np"], []).append(e)
    violations, nacc, states, nrej = [], 0, 0, 0
    for np_, lst in sorted(bynp.items()):
        kw = dict(np=np_, shim=True, header=(lambda evs, n=np_: {"np": n}), to_events=vlib.flatn, env=env, per_step_timeout=15)
        res, acc, rej, st = vlib.run_validate(bld, lst, MODULE, cfg, tag="%s-np%d" % (pid.lower(), np_), **kw)
        nacc += len(acc)
        states += st
        nrej += len(rej)
        if sink is not None:
            sink.update({x: r.get("events") for x, r in res.items()})
        byx = {e["x"]: e for e in lst}
        for x, idx, tail, r2 in vlib.confirm(bld, lst, rej, MODULE, cfg, **kw):
            tr = res[x]["events"]
            rp = vlib.save_replay(pid, x, {"exec": byx[x], "trace": tr[max(0, idx - 2):idx + 1], "rejected_index": idx, "tlc": tail,
                                           "log": res[x]["log"][-2000:], "cfg": cfg})
            violations.append({"sig": sig_of(tr, idx, res[x]["status"], [s for s in byx[x]["steps"]]), "replay": rp,
                               "what": "step %d not explained by MP (status %s) %s: %s" % (
                                   idx, res[x]["status"], tail.splitlines()[0] if tail else "", json.dumps(tr[idx] if idx < len(tr) else {})[:1200])})
    calls = set()
    for e in execs:
        for s in e["steps"]:
            if "setup" not in s:
                calls.add(json.dumps({k: v for k, v in s.items() if k not in ("obs", "vals")}, sort_keys=True) + str(e["np"]))
    cov = {"states": mc["stats"].get("distinct", 0), "transitions": mc["stats"].get("generated", 0),
           "traces_validated_against_impl": nacc,
           "samples": [[{k: v for k, v in s.items() if k not in ("obs", "setup")} for s in e["steps"] if "setup" not in s][:6] for e in execs[:2]],
           "evaluations": len(execs), "distinct_nontrivial": len(calls), "trace_states": states, "rejected_first_pass": nrej,
           "process_counts": sorted(bynp), "rule": rule, "exhaustive": False,
           "action_coverage": {k: v[0] for k, v in mc["coverage"].items() if v[0] > 0 and not k.startswith("line")}}
    cov.update(extra or {})
    return {"level": "model_checking", "coverage": cov, "violations": violations,
            "assumptions": ["harness barriers between steps (outside the library) make steps atomic with respect to each other",
                            "PMPI shim records the library's MPI calls; rank 0 reads the header field from the file with plain read()"]}


def run(tier, seed):
    rng = random.Random(seed)
    mc = vlib.tlc_check("MP_MC.tla", "cfg/MP_mc.cfg", workers=8)
    if not mc["ok"]:
        raise vlib.InfraError("MP design check failed:\n" + mc["out"][-3000:])
    if vlib.tlc_check("MP_MC.tla", "cfg/MP_reach.cfg", workers=4, coverage=False)["ok"]:
        raise vlib.InfraError("vacuity: ReachStale not reachable")
    nwalk = 400 if tier == "quick" else 2500
    execs = []
    for np_, cfg in [(2, "cfg/MP_sim2.cfg"), (3, "cfg/MP_sim.cfg")] + ([(4, "cfg/MP_sim4.cfg")] if tier != "quick" else []):
        ws = walks("MP_MC.tla", cfg, nwalk, 12, seed + np_)
        for n, h in enumerate(ws):
            tr = mpgen.Translator(rng, np_)
            execs.append({"x": "n%dw%d" % (np_, n), "np": np_, "steps": mpgen.fixture(fmt=[None, "64BIT_OFFSET", "64BIT_DATA"][n % 3]) + tr.steps(h),
                          "lenv": {"VERIF_JITTER": "0.002"} if n % 4 == 0 else None})
    return run_mp(PID, tier, seed, execs, "cfg/Trace_MP.cfg", mc,
                  "random walks (TLC -simulate, depth 12) of the MP model on 2 and 3 (thorough: 4) processes: collective puts by any subset "
                  "of ranks (others zero-length), independent puts, nonblocking posts with different request counts per rank, wait_all of "
                  "arbitrary per-rank subsets, independent waits, fill_var_rec, begin/end_indep, sync, sync_numrecs, redef+enddef, "
                  "close+reopen; a quarter of the executions with random per-rank delays before each call")


def replay(path):
    r = json.load(open(path))
    bld = vlib.build("dbg")
    ex = r["exec"]
    res, acc, rej, _ = vlib.run_validate(bld, [ex], MODULE, r.get("cfg", "cfg/Trace_MP.cfg"), np=ex["np"], shim=True, par=1,
                                         header=lambda evs: {"np": ex["np"]}, to_events=vlib.flatn)
    if rej:
        print(rej[0][2][:800])
        print("VIOLATION property=%s replay=%s" % (PID, path))
        return 1
    print("accepted")
    return 0
