"""C13 -- caller buffers are respected; attached-buffer accounting is exact.
spec/Data.tla: Post/Wait/Cancel/Attach/Detach with abuf.used == bytes of pending buffered puts
(invariant UsageExact); Trace_Data validates usage/size/return codes after every call and that the
caller's buffers are byte-identical once the blocking call / completing wait / cancel has returned,
that read calls touch only the selected bytes (guard zones, gaps of derived buffer types), and that a
buffered put was captured at posting time (the harness overwrites its source right after posting)."""
import random
import vlib, datagen, datacheck

PID = "C13"
BIG_DIMS = [("t", 0), ("n", 2048), ("m", 3000), ("k", 600)]
BIG_VARS = [("B", ["n"], "int"), ("S", ["m"], "short"), ("D", ["k"], "double"), ("R", ["t", "k"], "float")]


def big_scenarios(rng, tier):
    """requests on both sides of the 4096-byte in-place-swap threshold, every swap hint, types that need
    swapping or conversion, contiguous and gapped buffer types, completion by wait and by cancel"""
    ex = []
    n = 0
    OBS = ["nreqs", "abuf"]
    for hint in [None, "auto", "enable", "disable"]:
        for (v, xt, total) in [(0, "int", 2048), (1, "short", 3000), (2, "double", 600)]:
            for cnt in sorted({total, 4096 // datagen.TYPES[xt], 4096 // datagen.TYPES[xt] + 1, 7}):
                if cnt > total:
                    continue
                for kind, fin in [("blocking", None), ("i", "wait"), ("i", "cancel"), ("b", "wait"), ("b", "cancel")]:
                    for it, lay in [(datagen.NATIVE[xt], None), (datagen.NATIVE[xt], "vector"), ("double" if xt != "double" else "float", None)]:
                        if tier == "quick" and rng.random() < 0.55:
                            continue
                        info = {"nc_in_place_swap": hint} if hint else None
                        st = datagen.fixture(BIG_VARS, BIG_DIMS, info=info)
                        st.append({"op": "buffer_attach", "size": 40000, "obs": OBS})
                        tok = [(i * 7 + n) % 100 + 1 for i in range(cnt)]
                        a = {"op": "put", "v": v, "form": "vara", "start": [3 if cnt < total else 0], "count": [cnt],
                             "itype": it, "vals": tok, "obs": OBS + (["disk"] if kind == "blocking" else [])}
                        if lay:
                            a["flex"] = {"layout": lay}
                        if kind == "blocking":
                            a["mode"] = "coll"
                        else:
                            a.update(kind=kind, req="q")
                        st.append(a)
                        if fin:
                            w = {"op": fin, "reqs": ["q"], "obs": OBS + ["disk"]}
                            if fin == "wait":
                                w["mode"] = "coll"
                            st.append(w)
                        st.append({"op": "get", "v": v, "form": "vara", "start": [0], "count": [min(total, cnt + 5)], "itype": it if it != "float" else "double",
                                   "n": min(total, cnt + 5), "mode": "coll", "obs": OBS})
                        st.append({"op": "buffer_detach", "obs": OBS})
                        ex.append({"x": "big%d" % n, "steps": st})
                        n += 1
    return ex


def run(tier, seed):
    rng = random.Random(seed)
    mc = datacheck.design_check(tier)
    nwalk, depth = (3000, 12) if tier == "quick" else (30000, 12)
    ws = datacheck.walks(nwalk, depth, seed, cfg="cfg/Nonblock_sim_buf.cfg", module="Nonblock_MC.tla")
    execs = []
    V, D = datagen.NB_VARS, datagen.NB_DIMS
    for n, h in enumerate(ws):
        tr = datagen.Translator(rng, V, D, flex=True, conv=True, modes=True)
        execs.append({"x": "w%d" % n, "steps": datagen.fixture(V, D) + tr.steps(h)})
    big = big_scenarios(rng, tier)
    r1 = datacheck.run(PID, tier, seed, execs, mc, header=datagen.header_for(V, D))
    r2 = datacheck.run(PID, tier, seed, big, mc, header=datagen.header_for(BIG_VARS, BIG_DIMS))
    cov = r1["coverage"]
    for k in ("traces_validated_against_impl", "evaluations", "distinct_nontrivial", "trace_states", "rejected_first_pass"):
        cov[k] += r2["coverage"][k]
    cov.update({"rule": "buffer-focused random walks of the Data model (bput/iput/wait/cancel of subsets/attach/detach over a small "
                        "attached buffer so that NC_EINSUFFBUF boundaries are hit) plus threshold scenarios: request sizes 7 elements, "
                        "exactly 4096 bytes, 4096+1 element and whole variable x swap hint {unset,auto,enable,disable} x {blocking, iput, "
                        "bput} x {wait, cancel} x {native, gapped buffer type, converting type}",
                "walks": len(ws), "threshold_scenarios": len(big), "exhaustive": False})
    return {"level": "model_checking", "coverage": cov, "violations": r1["violations"] + r2["violations"],
            "assumptions": ["guard zones of 32 bytes around every buffer and the gaps of derived types carry a sentinel byte",
                            "usage is compared with the sum of the external sizes of the pending buffered puts"]}


def replay(path):
    import json
    r = json.load(open(path))
    big = r["exec"]["x"].startswith("big")
    return datacheck.replay(PID, path, header=datagen.header_for(BIG_VARS, BIG_DIMS) if big else datagen.header_for(datagen.NB_VARS, datagen.NB_DIMS))
