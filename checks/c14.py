"""C14 -- API mode state machine and error precedence.
spec/Modes.tla (design check + generator), spec/Trace_Modes.tla (trace validation)."""
import json, random, os, time
import vlib

PID = "C14"
OBS = ["st", "inq", "nreqs", "sha", "exists"]


def S(**k):
    k["setup"] = 1
    return k


def fixture(start):
    st = [S(op="create", path="a.nc", cmode=["CLOBBER"]),
          S(op="def_dim", name="t", len=0), S(op="def_dim", name="x", len=4),
          S(op="def_var", name="fv", xtype="int", dims=[1]),
          S(op="def_var", name="rv", xtype="int", dims=[0, 1]),
          S(op="put_att", v=-1, name="ga", itype="text", vals="abcd"),
          S(op="put_att", v=1, name="_FillValue", xtype="int", itype="int", vals=[-1])]
    if start != "created":
        st += [S(op="enddef"), S(op="close"),
               S(op="open", path="a.nc", omode=["WRITE"] if start == "openrw" else ["NOWRITE"])]
    st.append({"op": "mark", "s": start, "obs": OBS})
    return st


def step_of(c):
    k = c["c"]
    if k in ("enddef", "redef", "begin_indep", "end_indep", "close", "abort", "sync", "sync_numrecs", "flush", "inq"):
        s = {"op": k}
    elif k == "def_dim":
        s = {"op": "def_dim", "name": "d2", "len": 3}
    elif k == "def_var":
        s = {"op": "def_var", "name": "v2", "xtype": "int", "dims": [1]}
    elif k == "put_att_new":
        s = {"op": "put_att", "v": -1, "name": "gb", "itype": "text", "vals": "xy"}
    elif k == "put_att_same":
        s = {"op": "put_att", "v": -1, "name": "ga", "itype": "text", "vals": "wxyz"}
    elif k == "del_att":
        s = {"op": "del_att", "v": -1, "name": "ga"}
    elif k == "set_fill":
        s = {"op": "set_fill", "fill": c["m"]}
    elif k == "def_var_fill":
        s = {"op": "def_var_fill", "v": 0, "nofill": 0, "fillval": None}
    elif k == "rename_var":
        s = {"op": "rename_var", "v": 0, "new": c["n"]}
    elif k == "put":
        s = {"op": "put", "v": 0, "form": "vara", "mode": c["m"], "itype": "int", "start": [0], "count": [2], "vals": [1, 2]}
    elif k == "get":
        s = {"op": "get", "v": 0, "form": "vara", "mode": c["m"], "itype": "int", "start": [0], "count": [2], "n": 2}
    elif k == "iput":
        s = {"op": "put", "kind": "i", "req": "pi", "v": 0, "form": "vara", "itype": "int", "start": [0], "count": [2], "vals": [3, 4]}
    elif k == "bput":
        s = {"op": "put", "kind": "b", "req": "pb", "v": 0, "form": "vara", "itype": "int", "start": [2], "count": [2], "vals": [5, 6]}
    elif k == "iget":
        s = {"op": "get", "kind": "i", "req": "pg", "v": 0, "form": "vara", "itype": "int", "start": [0], "count": [2], "n": 2}
    elif k == "wait":
        s = {"op": "wait", "mode": c["m"], "reqs": "ALL"}
    elif k == "cancel":
        s = {"op": "cancel", "reqs": "ALL"}
    elif k == "fill_var_rec":
        s = {"op": "fill_var_rec", "v": 1, "rec": 0}
    elif k == "attach":
        s = {"op": "buffer_attach", "size": 64}
    elif k == "detach":
        s = {"op": "buffer_detach"}
    elif k == "inq_buffer":
        s = {"op": "inq_buffer"}
    else:
        raise ValueError(k)
    s["obs"] = OBS
    return s


def key(c):
    return json.dumps(c, sort_keys=True)


def build_execs(items, tier, rng):
    """one execution per source state: shortest history + all calls the model says leave the
    state unchanged (chained), plus one execution per state-changing call"""
    by_src = {}
    for it in items:
        h = it["h"]
        src = tuple(key(e["c"]) for e in h[:-1])
        by_src.setdefault(src, {"h": h[:-1], "loops": {}, "chg": {}})
        tgt = by_src[src]["chg"] if it["chg"] else by_src[src]["loops"]
        tgt[key(h[-1]["c"])] = h[-1]["c"]
    srcs = sorted(by_src)
    if tier == "quick":
        rng.shuffle(srcs)
        srcs = srcs[:500]
    execs = []
    for n, src in enumerate(srcs):
        e = by_src[src]
        start = e["h"][0]["c"]["s"]
        pre = fixture(start) + [step_of(x["c"]) for x in e["h"][1:]]
        loops = list(e["loops"].values())
        rng.shuffle(loops)
        execs.append({"x": "s%d" % n, "steps": pre + [step_of(c) for c in loops], "nontrivial": len(loops)})
        for j, c in enumerate(e["chg"].values()):
            execs.append({"x": "s%dc%d" % (n, j), "steps": pre + [step_of(c)], "nontrivial": 1})
    return execs, len(by_src)


def flat(res):
    return [{"e": s["e"], "a": s["rk"][0]["a"], "rc": s["rk"][0].get("rc", "NONE"), "out": s["rk"][0].get("out", {}),
             "obs": s["rk"][0].get("obs", {})} for s in res["steps"]]


def run_and_validate(bld, execs, par=12):
    jobs = [{"execs": ch, "np": 1, "tag": "c14_%d" % i} for i, ch in enumerate(vlib.chunks(execs, max(1, len(execs) // (par * 2) + 1)))]
    res = vlib.run_parallel(bld, jobs, par=par)
    traces, bad = [], []
    for ex in execs:
        r = res[ex["x"]]
        if r["status"] != "ok":
            bad.append((ex, r))
        traces.append((ex["x"], flat(r)))
    # validate in a few big concatenations
    acc, rej, states = [], [], 0
    for ch in vlib.chunks(traces, 1500):
        a, r, s = vlib.validate_execs("Trace_Modes.tla", "cfg/Trace_Modes.cfg", ch, label=PID)
        acc += a
        rej += r
        states += s
    return res, acc, rej, bad, states


def run(tier, seed):
    rng = random.Random(seed)
    bld = vlib.build("dbg")
    mc = vlib.tlc_check("Modes_MC.tla", "cfg/Modes_mc.cfg", workers=4)
    if not mc["ok"]:
        raise vlib.InfraError("Modes design check failed:\n" + mc["out"][-3000:])
    reach = vlib.tlc_check("Modes_MC.tla", "cfg/Modes_reach.cfg", workers=2, coverage=False)
    if reach["ok"]:
        raise vlib.InfraError("vacuity: Reach1 state not reachable")
    gen = vlib.tlc_emit("Modes_MC.tla", "cfg/Modes_gen.cfg")
    items = gen["items"]
    if len(items) < 1000:
        raise vlib.InfraError("generation produced %d items\n%s" % (len(items), gen["out"][-2000:]))
    execs, nsrc = build_execs(items, tier, rng)
    # long random walks (TLC -simulate): history-dependent behaviour that one-test-per-transition cannot reach
    nwalk = 400 if tier == "quick" else 6000
    sim = vlib.tlc_emit("Modes_MC.tla", "cfg/Modes_sim.cfg", simulate=nwalk, depth=30, seed=seed + 1, workers=1, timeout=600)
    walks = [it["h"] for it in sim["items"]]
    if len(walks) < nwalk // 2:
        raise vlib.InfraError("simulation produced %d walks\n%s" % (len(walks), sim["out"][-2000:]))
    for n, h in enumerate(walks):
        execs.append({"x": "w%d" % n, "steps": fixture(h[0]["c"]["s"]) + [step_of(x["c"]) for x in h[1:]], "nontrivial": len(h) - 1})
    vlib.log("C14: %d model transitions, %d source states, %d executions" % (len(items), nsrc, len(execs)))
    res, acc, rej, bad, states = run_and_validate(bld, execs)
    byx = {e["x"]: e for e in execs}
    violations = []
    # confirm each rejection by an immediate re-run of the same execution
    if rej:
        again = [byx[x] for x, _, _ in rej]
        res2, acc2, rej2, bad2, _ = run_and_validate(bld, again, par=4)
        rej2x = {x for x, _, _ in rej2}
        for x, idx, tail in rej:
            if x not in rej2x:
                vlib.log("C14: rejection of %s not reproduced, dropped" % x)
                continue
            tr = flat(res[x])
            ev = tr[idx] if 0 <= idx < len(tr) else {}
            hist = [t["e"] for t in tr[:idx] if "setup" not in t["a"]]
            st = ev.get("obs", {}).get("st", {})
            sig = "call=%s;args=%s;rc=%s;dmode=%s;nmode=%s;status=%s;hist=%s" % (
                ev.get("e"), json.dumps({k: v for k, v in ev.get("a", {}).items() if k in ("mode", "kind", "name", "new", "fill")}, sort_keys=True),
                ev.get("rc"), st.get("dmode"), st.get("nmode"), res[x]["status"], ",".join(hist[-6:]))
            rp = vlib.save_replay(PID, x, {"exec": byx[x], "trace": tr, "rejected_index": idx, "tlc": tail, "log": res[x]["log"]})
            violations.append({"sig": sig, "replay": rp, "what": "event %d not explained by Modes: %s" % (idx, json.dumps(ev)[:600])})
    nontriv = sum(e["nontrivial"] for e in execs)
    cov = {"states": mc["stats"].get("distinct", 0), "transitions": mc["stats"].get("generated", 0),
           "traces_validated_against_impl": len(acc),
           "samples": [[s["op"] for s in e["steps"] if "setup" not in s] for e in execs[:3]],
           "evaluations": len(execs), "distinct_nontrivial": nontriv,
           "rule": "one execution per (sampled) source state of the Modes state graph: shortest history + every call the model "
                   "says leaves the state unchanged, plus one execution per state-changing call; distinct_nontrivial counts "
                   "distinct (source state, call) pairs executed",
           "model_transitions": len(items), "model_source_states": nsrc, "random_walks": len(walks),
           "trace_states": states, "exhaustive": tier == "thorough",
           "action_coverage": {k: v[0] for k, v in mc["coverage"].items()},
           "rejected_first_pass": len(rej)}
    return {"level": "model_checking", "coverage": cov, "violations": violations,
            "assumptions": ["documentation of each call's errors transcribed in Modes.tla (Allowed)",
                            "hook 2 (ncmpi_inq_verif_state) reports the flag words faithfully"]}


def replay(path):
    r = json.load(open(path))
    bld = vlib.build("dbg")
    res, acc, rej, bad, _ = run_and_validate(bld, [r["exec"]], par=1)
    if rej:
        x, idx, tail = rej[0]
        tr = flat(res[x])
        print("rejected at event", idx, json.dumps(tr[idx])[:1500])
        print(tail)
        print("VIOLATION property=%s replay=%s" % (PID, path))
        return 1
    print("accepted")
    return 0
