"""C01 -- blocking put/get round-trip fidelity for every access pattern.
spec/Data.tla (logical content, Elems of every access form), spec/Access_MC.tla (generator: every legal
(start,count,stride) over variables of 0..5 dimensions, fixed and record), Trace_Data (validation of
read buffers and of the independently decoded file content after every call)."""
import random, json
import vlib, datagen, datacheck

PID = "C01"
DIMS = [("t", 0), ("a5", 5), ("b3", 3), ("c4", 4), ("d2", 2), ("e1", 1)]
VDIMS = [[], ["a5"], ["b3", "c4"], ["d2", "b3", "d2"], ["t", "b3"], ["t", "d2", "d2"], ["d2", "e1", "d2", "e1", "d2"], ["t"]]
CLASSIC = ["byte", "short", "int", "float", "double", "char"]
VT = datagen.vartab([("v%d" % i, VDIMS[i], "int") for i in range(len(VDIMS))], DIMS)
VDIMSB = [["a5"], ["t", "b3"]]
VTB = datagen.vartab([("v0", ["a5"], "int"), ("v1", ["t", "b3"], "byte")], DIMS)
CDF5 = CLASSIC + ["ubyte", "ushort", "uint", "int64", "uint64"]
DIMSC = [("t", 0), ("a5", 5), ("b3", 3), ("d2", 2), ("g7", 7)]
VDIMSC = [["a5", "b3"], ["t", "a5", "d2"], ["g7"]]
VTC = datagen.vartab([("v0", VDIMSC[0], "int"), ("v1", VDIMSC[1], "int"), ("v2", VDIMSC[2], "int")], DIMSC)


def prod(l):
    p = 1
    for x in l:
        p *= x
    return p


def lin_elems(shape, sub):
    """linear indices (row-major over shape) of a subarray request, in request order"""
    start, count, stride = sub["start"], sub["count"], sub["stride"]
    n = prod(count)
    out = []
    nd = len(shape)
    for k in range(n):
        rem = k
        lin = 0
        mul = 1
        idx = [0] * nd
        for d in reversed(range(nd)):
            idx[d] = rem % count[d]
            rem //= count[d]
        for d in reversed(range(nd)):
            lin += (start[d] + idx[d] * stride[d]) * mul
            mul *= shape[d]
        out.append(lin)
    return out


def split(sub, nparts, rng):
    """split one subarray request into nparts disjoint parts along one dimension (some may be empty)"""
    nd = len(sub["count"])
    if nd == 0:
        return [sub] + [None] * (nparts - 1)
    d = rng.randrange(nd)
    c = sub["count"][d]
    cuts = sorted(rng.randint(0, c) for _ in range(nparts - 1))
    bounds = [0] + cuts + [c]
    parts = []
    for i in range(nparts):
        a, b = bounds[i], bounds[i + 1]
        if b == a:
            parts.append(None)
            continue
        s = {"start": list(sub["start"]), "count": list(sub["count"]), "stride": list(sub["stride"])}
        s["start"][d] = sub["start"][d] + a * sub["stride"][d]
        s["count"][d] = b - a
        parts.append(s)
    rng.shuffle(parts)
    return parts


def steps_for(h, rng, np, vars_, tr, vdims=None, dims=None):
    shapes = [[dict(dims or DIMS)[d] if d != "t" else datagen.MAXREC for d in vd] for vd in (vdims or VDIMS)]
    out = []
    for c in h:
        k = c["c"]
        if np == 1 or k == "reopen":
            out += tr.steps([c])
            continue
        r = c["r"]
        if len(r["subs"]) > 1:
            # a list of subarrays: one rank issues it, the others take part in the same varn call with nothing
            owner = rng.randrange(np)
            a0 = tr.access_args(r, k, True)
            base = {kk: vv for kk, vv in a0.items() if kk not in ("starts", "counts", "n")}
            pr = {}
            for rank in range(np):
                a = dict(base)
                if rank == owner:
                    a.update(starts=a0["starts"], counts=a0["counts"])
                    if k == "put":
                        a["vals"] = c["tok"]
                    else:
                        a["n"] = a0["n"]
                else:
                    a.update(starts=[r["subs"][0]["start"]], counts=[[0] * len(r["subs"][0]["count"])])
                    if k == "put":
                        a["vals"] = []
                    else:
                        a["n"] = 0
                a["mode"] = "coll"
                pr[str(rank)] = a
            st = dict(pr["0"])
            st.update(op=k, obs=tr.obs, pr={kk: vv for kk, vv in pr.items() if kk != "0"})
            out.append(st)
            continue
        sub = r["subs"][0]
        parts = split(sub, np, rng)
        tokmap = dict(zip(lin_elems(shapes[r["v"]], sub), c.get("tok", [])))
        # in a collective call every rank calls the same API function: choose it once
        xt = vars_[r["v"]][2]
        unit = all(x == 1 for x in sub["stride"])
        forms = ["vars", "varm"] + (["vara", "varn"] if unit else [])
        if unit and xt != "char" and all(p is not None for p in parts) and len(sub["count"]) > 0:
            forms.append("vard")
        form = rng.choice(forms)
        it = datagen.NATIVE[xt]
        if xt != "char" and form != "vard" and rng.random() < 0.35:
            it = rng.choice(datagen.CONV if k == "put" else datagen.WIDER[xt])
        lay = rng.choice(datagen.LAYOUTS) if rng.random() < 0.4 and form != "vard" else None
        pr = {}
        for rank in range(np):
            p = parts[rank]
            if p is None:   # this rank takes part with a zero-length request
                p = {"start": list(sub["start"]), "count": [0] * len(sub["count"]), "stride": list(sub["stride"])}
                if not p["count"]:
                    # a scalar cannot be zero-length: let this rank read it / rewrite the same value
                    p = sub
            a = {"v": r["v"], "form": form, "itype": it, "mode": "coll"}
            if form == "varn":
                a.update(starts=[p["start"]], counts=[p["count"]])
            else:
                a.update(start=p["start"], count=p["count"])
                if form in ("vars", "varm"):
                    a["stride"] = p["stride"]
            if lay:
                a["flex"] = {"layout": lay}
            if k == "put":
                a["vals"] = [tokmap[e] for e in lin_elems(shapes[r["v"]], p)]
            else:
                a["n"] = prod(p["count"])
            pr[str(rank)] = a
        st = dict(pr["0"])
        st.update(op=k, obs=tr.obs, pr={kk: vv for kk, vv in pr.items() if kk != "0"})
        # per-rank argument sets replace (not merge with) the common ones
        for kk, vv in st["pr"].items():
            for key in ("start", "count", "stride", "imap", "imap_buf", "flex", "starts", "counts", "vals", "n"):
                if key in st and key not in vv:
                    vv[key] = None
        out.append(st)
    return out


def serial(res):
    """multi-rank step -> consecutive single-process events (the parts of a collective call are disjoint, so
    their order is immaterial); the observations of the step go with the last of them"""
    out = []
    for s in res["steps"]:
        rk = s["rk"]
        for i, e in enumerate(rk):
            a = {k: v for k, v in e.get("a", {}).items() if v is not None}
            ev = {"e": s["e"], "a": a, "rc": e.get("rc", "NONE"), "out": e.get("out", {}), "obs": {}}
            if i == len(rk) - 1:
                obs = dict(e.get("obs", {}))
                if rk[0].get("obs", {}).get("disk") is not None:
                    obs["disk"] = rk[0]["obs"]["disk"]
                elif "disk" in obs:
                    del obs["disk"]
                ev["obs"] = obs
            out.append(ev)
    return out


def run(tier, seed):
    rng = random.Random(seed)
    mc = datacheck.design_check(tier)
    nwalk, depth = (700, 8) if tier == "quick" else (8000, 8)
    ws = datacheck.walks(nwalk, depth, seed, cfg="cfg/Access_sim.cfg", module="Access_MC.tla")
    wsb = datacheck.walks(nwalk // 3, depth, seed + 5, cfg="cfg/Access_sim_b.cfg", module="Access_MC.tla")
    execs = []
    execsb = []
    nps = [1, 1, 2, 3] if tier == "quick" else [1, 2, 3, 4, 5, 8]
    for n, h in enumerate(ws):
        fmt = [None, "64BIT_OFFSET", "64BIT_DATA"][n % 3]
        types = CDF5 if fmt == "64BIT_DATA" else CLASSIC
        vars_ = [("v%d" % i, VDIMS[i], rng.choice(types)) for i in range(len(VDIMS))]
        np = nps[n % len(nps)]
        tr = datagen.Translator(rng, vars_, DIMS, modes=(np == 1))
        execs.append({"x": "w%d" % n, "np": np, "steps": datagen.fixture(vars_, DIMS, fmt=fmt) + steps_for(h, rng, np, vars_, tr)})
    # second schema: exactly one record variable whose record size is not a multiple of 4
    for n, h in enumerate(wsb):
        fmt = [None, "64BIT_OFFSET", "64BIT_DATA"][n % 3]
        vars_ = [("v0", ["a5"], rng.choice(["int", "short", "double"])), ("v1", ["t", "b3"], rng.choice(["byte", "char", "short"] + (["ubyte", "ushort"] if fmt == "64BIT_DATA" else [])))]
        np = nps[n % len(nps)]
        tr = datagen.Translator(rng, vars_, DIMS, modes=(np == 1))
        execsb.append({"x": "b%d" % n, "np": np, "steps": datagen.fixture(vars_, DIMS, fmt=fmt) + steps_for(h, rng, np, vars_, tr, VDIMSB)})
    # third schema: extents of 5 in other than the fastest dimension (strided requests of three and more rows / planes)
    wsc = datacheck.walks(nwalk // 3, depth, seed + 9, cfg="cfg/Access_sim_c.cfg", module="Access_MC.tla")
    execsc = []
    for n, h in enumerate(wsc):
        fmt = [None, "64BIT_OFFSET", "64BIT_DATA"][n % 3]
        types = CDF5 if fmt == "64BIT_DATA" else CLASSIC
        vars_ = [("v%d" % i, VDIMSC[i], rng.choice(types)) for i in range(len(VDIMSC))]
        np = nps[n % len(nps)]
        tr = datagen.Translator(rng, vars_, DIMSC, modes=(np == 1))
        execsc.append({"x": "c%d" % n, "np": np, "steps": datagen.fixture(vars_, DIMSC, fmt=fmt) + steps_for(h, rng, np, vars_, tr, VDIMSC, DIMSC)})
    rc_ = datacheck.run(PID, tier, seed, execsc, mc, header=lambda evs: {"vars": VTC}, to_events=serial)
    rb = datacheck.run(PID, tier, seed, execsb, mc, header=lambda evs: {"vars": VTB}, to_events=serial)
    # the external types differ between executions; the model only needs the shapes (element sizes matter to
    # the buffered-put accounting alone, which this check does not exercise)
    r = datacheck.run(PID, tier, seed, execs, mc, header=lambda evs: {"vars": VT}, to_events=serial)
    allv, cov = r["violations"] + rb["violations"] + rc_["violations"], r["coverage"]
    for k in ("traces_validated_against_impl", "evaluations", "distinct_nontrivial", "trace_states", "rejected_first_pass"):
        cov[k] += rb["coverage"][k] + rc_["coverage"][k]
    cov.update({"rule": "random walks (TLC -simulate) of blocking puts and gets drawn from ALL legal (start,count,stride) of variables "
                        "with 0,1,2,3,5 dimensions (fixed and record, three record variables interleaved; a second schema with a single record variable of odd record size; a third with [5][3], [t][5][2], [7]), interleaved with close+reopen; each request issued through "
                        "a random equivalent form (var1/vara/vars/varm with imap/varn/vard, typed or flexible with derived buffer "
                        "types, converting memory types), random external types per format (CDF-1/2/5), on 1..%d processes with "
                        "the region split among them (empty parts included)" % max(nps),
                "walks": len(ws), "exhaustive": False})
    return {"level": "model_checking", "coverage": cov, "violations": allv,
            "assumptions": ["never-written elements are unconstrained (no fill mode in this check)"]}


def replay(path):
    r = json.load(open(path))
    vt = VTB if r["exec"]["x"].startswith("b") else VTC if r["exec"]["x"].startswith("c") else VT
    bld = vlib.build("dbg")
    res, acc, rej, _ = vlib.run_validate(bld, [r["exec"]], datacheck.MODULE, datacheck.CFG_DEV, np=r["exec"].get("np", 1), par=1,
                                         header=lambda evs: {"vars": vt}, to_events=serial)
    if rej:
        print(rej[0][2][:800])
        print("VIOLATION property=%s replay=%s" % (PID, path))
        return 1
    print("accepted")
    return 0
