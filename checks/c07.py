"""C07 -- metadata and namespace operations behave like a sequential model.
spec/File.tla (dims / vars / attribute lists as sequences, every define/put/rename/copy/delete with its documented
error), File_MC (design check; generator), Trace_File (the complete schema through the inquiry API, by id and by name
for every name ever used, after every call; the decoded header whenever the file must be up to date)."""
import random
import vlib, filegen, filecheck

PID = "C07"


def run(tier, seed):
    rng = random.Random(seed)
    mc = filecheck.design_check()
    n = 500 if tier == "quick" else 4000
    execs = []
    i = 0
    for cfg, fmt in [("cfg/File_sim.cfg", 1), ("cfg/File_sim_ok.cfg", 1), ("cfg/File_sim_ok2.cfg", 2), ("cfg/File_sim_ok5.cfg", 5), ("cfg/File_sim5.cfg", 5)]:
        for h in filecheck.walks(cfg, n // 4, 16, seed + i):
            fam = ["ascii", "utf8", "collide", "maxlen"][i % 4]
            info = None
            if i % 4 == 1:   # tiny name hash tables: long collision chains
                sz = rng.choice(["1", "2", "3", "4"])
                info = {"nc_hash_size_dim": sz, "nc_hash_size_var": sz, "nc_hash_size_gattr": sz, "nc_hash_size_vattr": sz}
            tr = filegen.Translator(rng, fmt=fmt, family=fam, info=info)
            execs.append({"x": "w%d" % i, "steps": tr.steps(h, filecheck.NAMES)})
            i += 1
    # exhaustive attribute-list family: one execution per transition of the 65-state graph of global-attribute
    # lists over 4 names (put/overwrite/rename/delete), with all names in one hash bucket or default table size
    gen = vlib.tlc_emit("File_MC.tla", "cfg/File_att_gen.cfg", workers=1)
    if len(gen["items"]) < 1000:
        raise vlib.InfraError("attribute generator produced %d items" % len(gen["items"]))
    for j, it in enumerate(gen["items"]):
        if tier == "quick" and j % 2 == 1 and not it["chg"]:
            continue
        info = {"nc_hash_size_gattr": "1"} if j % 3 != 2 else None
        tr = filegen.Translator(rng, fmt=1, family="ascii", info=info, obs=["schema"])
        execs.append({"x": "att%d" % j, "steps": tr.steps(it["h"], ["a", "b", "c", "d"])})
    # ... and random walks over the same operations: the library's lookup tables depend on the path taken, not only
    # on the resulting list
    sim = vlib.tlc_emit("File_MC.tla", "cfg/File_att_sim.cfg", simulate=300 if tier == "quick" else 2500, depth=11, seed=seed + 9, workers=4)
    seen = set()
    for it in sim["items"]:
        import json as _j
        k = _j.dumps(it["h"], sort_keys=True)
        if k in seen:
            continue
        seen.add(k)
        info = {"nc_hash_size_gattr": rng.choice(["1", "2", "1"])}
        tr = filegen.Translator(rng, fmt=1, family="ascii", info=info, obs=["schema"])
        execs.append({"x": "attw%d" % len(seen), "steps": tr.steps(it["h"], ["a", "b", "c", "d"])})
        if len(seen) >= (1500 if tier == "quick" else 8000):
            break
    return filecheck.run(PID, tier, seed, execs, mc,
                         "random walks (TLC -simulate of File_MC, depth 14-16; one generator admits failing calls, the other only "
                         "successful ones) over def_dim/def_var/put_att (new, overwrite smaller/equal/larger, any of the format's "
                         "types, _FillValue rules)/del_att/rename_dim/var/att/copy_att/set_fill/def_var_fill/enddef/redef/abort/"
                         "close/open/put/fill_var_rec; names concretised as ASCII, multi-byte UTF-8 in NFD spelling, or names "
                         "colliding in the name hash; name hash tables of size 1..4 or default; formats CDF-1/2/5",
                         assumptions=["NFC normalisation of names is computed by Python's unicodedata (independent of the library's utf8proc)"])


def replay(path):
    return filecheck.replay(PID, path)
