"""C07 -- metadata and namespace operations behave like a sequential model.
spec/File.tla (dims / vars / attribute lists as sequences, every define/put/rename/copy/delete with its documented
error), File_MC (design check; generator), Trace_File (the complete schema through the inquiry API, by id and by name
for every name ever used, after every call; the decoded header whenever the file must be up to date)."""
import random
import vlib, filegen, filecheck

PID = "C07"


def run(tier, seed):
    rng = random.Random(seed)
    mc = filecheck.design_check()
    n = 500 if tier == "quick" else 8000
    execs = []
    i = 0
    for cfg, fmt in [("cfg/File_sim.cfg", 1), ("cfg/File_sim_ok.cfg", 1), ("cfg/File_sim_ok2.cfg", 2), ("cfg/File_sim_ok5.cfg", 5), ("cfg/File_sim5.cfg", 5)]:
        for h in filecheck.walks(cfg, n // 4, 16, seed + i):
            fam = ["ascii", "utf8", "collide"][i % 3]
            info = None
            if i % 4 == 1:   # tiny name hash tables: long collision chains
                sz = rng.choice(["1", "2", "3", "4"])
                info = {"nc_hash_size_dim": sz, "nc_hash_size_var": sz, "nc_hash_size_gattr": sz, "nc_hash_size_vattr": sz}
            tr = filegen.Translator(rng, fmt=fmt, family=fam, info=info)
            execs.append({"x": "w%d" % i, "steps": tr.steps(h, filecheck.NAMES)})
            i += 1
    return filecheck.run(PID, tier, seed, execs, mc,
                         "random walks (TLC -simulate of File_MC, depth 14-16; one generator admits failing calls, the other only "
                         "successful ones) over def_dim/def_var/put_att (new, overwrite smaller/equal/larger, any of the format's "
                         "types, _FillValue rules)/del_att/rename_dim/var/att/copy_att/set_fill/def_var_fill/enddef/redef/abort/"
                         "close/open/put/fill_var_rec; names concretised as ASCII, multi-byte UTF-8 in NFD spelling, or names "
                         "colliding in the name hash; name hash tables of size 1..4 or default; formats CDF-1/2/5",
                         assumptions=["NFC normalisation of names is computed by Python's unicodedata (independent of the library's utf8proc)"])


def replay(path):
    return filecheck.replay(PID, path)
