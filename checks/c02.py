"""C02 -- nonblocking request aggregation is equivalent to blocking execution.
spec/Data.tla (request queue, Wait/Cancel on arbitrary subsets), Data_MC (design check, generator),
Trace_Data (validation of ids, statuses, read buffers, pending count, file content after every call)."""
import random
import vlib, datagen, datacheck

PID = "C02"


def run(tier, seed):
    rng = random.Random(seed)
    mc = datacheck.design_check(tier)
    nwalk, depth = (900, 10) if tier == "quick" else (12000, 12)
    ws = datacheck.walks(nwalk, depth, seed)
    execs = []
    fmts = [None, "64BIT_OFFSET", "64BIT_DATA"]
    for n, h in enumerate(ws):
        tr = datagen.Translator(rng, flex=True, conv=True, modes=True)
        execs.append({"x": "w%d" % n, "steps": datagen.fixture(fmt=fmts[n % 3]) + tr.steps(h)})
    return datacheck.run(PID, tier, seed, execs, mc,
                         extra_cov={"rule": "random walks of the Data model (TLC -simulate, depth %d): posts of iput/bput/iget over a menu of "
                                            "regions (rows, strided columns, multi-record, varn, zero-length), waits and cancels of arbitrary "
                                            "subsets in any id order, interleaved with blocking calls; each request is issued through a "
                                            "randomly chosen equivalent API form; distinct_nontrivial counts distinct concrete calls" % depth,
                                    "walks": len(ws), "exhaustive": False},
                         assumptions=["no element is written twice among pending requests (generator restriction stated by the property)",
                                      "single process; multi-process completion is covered by C05/C08"])


def replay(path):
    return datacheck.replay(PID, path)
