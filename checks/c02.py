"""C02 -- nonblocking request aggregation is equivalent to blocking execution.
spec/Data.tla (request queue, Wait/Cancel on arbitrary subsets), Data_MC (design check, generator),
Trace_Data (validation of ids, statuses, read buffers, pending count, file content after every call)."""
import random
import vlib, datagen, datacheck, mpgen, c05

PID = "C02"


def run(tier, seed):
    rng = random.Random(seed)
    mc = datacheck.design_check(tier)
    nwalk, depth = (5000, 12) if tier == "quick" else (40000, 12)
    ws = datacheck.walks(nwalk, depth, seed, cfg="cfg/Nonblock_sim.cfg", module="Nonblock_MC.tla")
    execs = []
    fmts = [None, "64BIT_OFFSET", "64BIT_DATA"]
    V, D = datagen.NB_VARS, datagen.NB_DIMS
    for n, h in enumerate(ws):
        tr = datagen.Translator(rng, V, D, flex=True, conv=True, modes=True)
        execs.append({"x": "w%d" % n, "steps": datagen.fixture(V, D, fmt=fmts[n % 3]) + tr.steps(h)})
    # the recorded overlapping-read finding is kept out of the walks; one dedicated execution exercises it
    execs.append({"x": "overlapread", "special": 1, "steps": datagen.fixture(V, D) + [
        {"op": "put", "v": 0, "form": "var", "mode": "coll", "itype": "int", "vals": list(range(1, 25)), "obs": datagen.OBS},
        {"op": "get", "kind": "i", "req": "d", "v": 0, "form": "vara", "itype": "int", "start": [0, 2], "count": [1, 1], "n": 1, "obs": datagen.OBS},
        {"op": "get", "kind": "i", "req": "e", "v": 0, "form": "vars", "itype": "int", "start": [0, 0], "count": [2, 2], "stride": [1, 2], "n": 4, "obs": datagen.OBS},
        {"op": "wait", "mode": "coll", "special": "ALL", "obs": datagen.OBS}]})
    res = datacheck.run(PID, tier, seed, execs, mc, header=datagen.header_for(V, D),
                         extra_cov={"rule": "random walks of the Data model (TLC -simulate of Nonblock_MC, depth %d): posts of iput/bput/iget drawn from ALL "
                                            "legal (start,count,stride) of F[6][4], R[t][4], G[t][2], H[4] and 3-element varn lists, waits of arbitrary "
                                            "subsets in any id order (NC_REQ_NULL padding, *_ALL forms), cancels, interleaved with blocking calls; each request is issued through a "
                                            "randomly chosen equivalent API form; distinct_nontrivial counts distinct concrete calls" % depth,
                                    "walks": len(ws), "exhaustive": False},
                         assumptions=["no element is written twice among pending requests (generator restriction stated by the property)",
                                      "the Data walks run on one process; completion by wait_all on 2-3 processes, with ranks holding "
                                      "different numbers (or none) of requests, is validated against MP.tla (section below; C05/C08 go deeper)"])
    # ---- wait / wait_all on several processes (MP.tla): ranks with different numbers of pending requests, some with none
    mcM = vlib.tlc_check("MP_MC.tla", "cfg/MP_mc.cfg", workers=8)
    if not mcM["ok"]:
        raise vlib.InfraError("MP design check failed:\n" + mcM["out"][-3000:])
    exM = []
    for np_, cfg in [(2, "cfg/MP_sim2.cfg"), (3, "cfg/MP_sim.cfg")]:
        hs = [h for h in c05.walks("MP_MC.tla", cfg, 400 if tier == "quick" else 4000, 12, seed + 40 + np_) if '"wait' in __import__("json").dumps(h)]
        for n, h in enumerate(hs[:60 if tier == "quick" else 600]):
            tr = mpgen.Translator(random.Random(seed * 31 + n), np_)
            exM.append({"x": "m%d_%d" % (np_, n), "np": np_, "steps": mpgen.fixture(fmt=[None, "64BIT_OFFSET", "64BIT_DATA"][n % 3]) + tr.steps(h)})
    rM = c05.run_mp(PID, tier, seed, exM, "cfg/Trace_MP.cfg", mcM, "")
    for v in rM["violations"]:
        res["violations"].append(dict(v, sig="family=MP;%s" % v["sig"]))
    res["coverage"]["multi_process_waits"] = {k: rM["coverage"].get(k) for k in ("evaluations", "traces_validated_against_impl", "trace_states", "rejected_first_pass")}
    res["coverage"]["evaluations"] = (res["coverage"].get("evaluations") or 0) + len(exM)
    return res


def replay(path):
    import json
    r = json.load(open(path))
    ex = r.get("exec") or {}
    if str(ex.get("x", "")).startswith("m") and ex.get("np", 1) > 1:      # multi-process wait section
        bld = vlib.build("dbg")
        res, acc, rej, _ = vlib.run_validate(bld, [ex], c05.MODULE, r.get("cfg", "cfg/Trace_MP.cfg"), np=ex["np"], shim=True, par=1,
                                             header=lambda evs: {"np": ex["np"]}, to_events=vlib.flatn)
        if rej:
            print(rej[0][2][:800])
            print("VIOLATION property=%s replay=%s" % (PID, path))
            return 1
        print("accepted")
        return 0
    return datacheck.replay(PID, path, header=datagen.header_for(datagen.NB_VARS, datagen.NB_DIMS))
