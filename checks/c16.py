"""C16 -- fill-value semantics.
spec/File.tla: the fill switch of a variable (inherited from the dataset mode at definition, rewritten by set_fill,
set by def_var_fill, implied by a _FillValue attribute), Enddef fills exactly the NEW variables that want it (fixed:
entirely; record: the existing records), FillRec; Trace_File compares reads and the decoded file: F must read as the
_FillValue attribute if present else the type default, old data must be intact (OldDataKept)."""
import random
import vlib, filegen, filecheck

PID = "C16"


def fillish(h):
    return any(c["c"] in ("set_fill", "def_var_fill", "fill_rec") and c["rc"] == "NC_NOERR" for c in h) or \
        any(c["c"] == "put_att" and c["a"]["name"] == "_FillValue" and c["rc"] == "NC_NOERR" for c in h)


def run(tier, seed):
    rng = random.Random(seed)
    mc = filecheck.design_check()
    n = 400 if tier == "quick" else 6000
    execs = []
    i = 0
    for cfg, fmt in [("cfg/File_sim_ok.cfg", 1), ("cfg/File_sim_ok5.cfg", 5), ("cfg/File_sim_ok2.cfg", 2)]:
        ws = [h for h in filecheck.walks(cfg, n * 3, 16, seed + 300 + i) if fillish(h)][:n // 3 + 1]
        for h in ws:
            np_ = ([1, 2, 3] if tier == "quick" else [1, 2, 3, 4, 5, 7])[i % (3 if tier == "quick" else 6)]
            tr = filegen.Translator(rng, fmt=fmt, np=np_)
            execs.append({"x": "w%d" % i, "np": np_, "steps": tr.steps(h, filecheck.NAMES)})
            i += 1
    return filecheck.run(PID, tier, seed, execs, mc,
                         "random walks of File_MC that exercise a fill mechanism (dataset set_fill before/after definitions, "
                         "def_var_fill on/off, _FillValue attributes, fill_var_rec, redefinitions adding fixed and record variables "
                         "with existing records), types of all formats, on 1..3 (thorough: up to 7) processes (the fill is divided "
                         "among the processes); every variable and record is read back and the file decoded after every data-mode call")


def replay(path):
    return filecheck.replay(PID, path)
