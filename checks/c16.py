"""C16 -- fill-value semantics.
spec/File.tla: the fill switch of a variable (inherited from the dataset mode at definition, rewritten by set_fill,
set by def_var_fill, implied by a _FillValue attribute), Enddef fills exactly the NEW variables that want it (fixed:
entirely; record: the existing records), FillRec; Trace_File compares reads and the decoded file: F must read as the
_FillValue attribute if present else the type default, old data must be intact (OldDataKept)."""
import random
import vlib, filegen, filecheck

PID = "C16"


def fillish(h):
    return any(c["c"] in ("set_fill", "def_var_fill", "fill_rec") and c["rc"] == "NC_NOERR" for c in h) or \
        any(c["c"] == "put_att" and c["a"]["name"] == "_FillValue" and c["rc"] == "NC_NOERR" for c in h)


def scenarios(tier):
    """deterministic fill scenarios: dataset mode re-asserted after a per-variable override; records appended in
    independent mode by one process only, then a redefinition (entered straight from independent mode) that adds a
    record variable in fill mode"""
    ex = []
    O = filegen.OBS
    n = 0
    for fmt in [1, 5]:
        for M in ["FILL", "NOFILL"]:
            for again in [M, "FILL" if M == "NOFILL" else "NOFILL"]:
                cm = ["CLOBBER"] + ([filegen.FMT[fmt]] if filegen.FMT[fmt] else [])
                st = [{"op": "create", "path": "a.nc", "cmode": cm, "fmtno": fmt, "obs": ["exists"]},
                      {"op": "def_dim", "name": "x", "norm": "x", "len": 8}, {"op": "def_dim", "name": "t", "norm": "t", "len": 0},
                      {"op": "set_fill", "fill": M},
                      {"op": "def_var", "name": "a", "norm": "a", "xtype": "int", "dims": [0]},
                      {"op": "def_var", "name": "r", "norm": "r", "xtype": "int", "dims": [1, 0]},
                      {"op": "def_var_fill", "v": 0, "nofill": 1 if M == "FILL" else 0},
                      {"op": "def_var_fill", "v": 1, "nofill": 1 if M == "FILL" else 0},
                      {"op": "set_fill", "fill": again},
                      {"op": "def_var", "name": "b", "norm": "b", "xtype": "short", "dims": [0]},
                      {"op": "enddef"},
                      {"op": "get", "v": 0, "mode": "coll", "itype": "int", "rec": 0, "form": "vara", "n": 8, "start": [0], "count": [8], "obs": []},
                      {"op": "get", "v": 2, "mode": "coll", "itype": "short", "rec": 0, "form": "vara", "n": 8, "start": [0], "count": [8], "obs": []},
                      {"op": "fill_var_rec", "v": 1, "rec": 0}, {"op": "close"}]
                for s in st:
                    s.setdefault("obs", O)
                ex.append({"x": "sa%d" % n, "np": 1, "steps": st})
                n += 1
    for np_ in ([2, 3] if tier == "quick" else [2, 3, 4, 5]):
        for fmt in [1, 2, 5]:
            for writer, two in [(w, t) for w in range(1, np_) for t in (False, True)]:
                cm = ["CLOBBER"] + ([filegen.FMT[fmt]] if filegen.FMT[fmt] else [])
                W = 8
                st = [{"op": "create", "path": "a.nc", "cmode": cm, "fmtno": fmt, "obs": ["exists"]},
                      {"op": "def_dim", "name": "t", "norm": "t", "len": 0}, {"op": "def_dim", "name": "x", "norm": "x", "len": W},
                      {"op": "def_var", "name": "r1", "norm": "r1", "xtype": "int", "dims": [0, 1]},
                      {"op": "enddef"},
                      {"op": "begin_indep", "obs": ["schema"]}]
                for r in range(3):   # records appended by one process only, independently
                    st.append({"op": "put", "v": 0, "mode": "indep", "itype": "int", "rec": r, "form": "vara", "start": [r, 0], "count": [1, W],
                               "vals": [10 * r + k + 1 for k in range(W)], "ranks": [writer], "obs": ["schema"]})
                st += [{"op": "redef", "obs": ["schema"]},               # straight from independent mode
                       {"op": "set_fill", "fill": "FILL", "obs": ["schema"]},
                       {"op": "def_var", "name": "r2", "norm": "r2", "xtype": "int", "dims": [0, 1], "obs": ["schema"]},
                       {"op": "put_att", "v": 1, "name": "_FillValue", "norm": "_FillValue", "xtype": "int", "itype": "int", "vals": [-7], "n": 1, "obs": ["schema"]},
                       ] + ([{"op": "def_var", "name": "r3", "norm": "r3", "xtype": "short", "dims": [0, 1], "obs": ["schema"]}] if two else []) + [
                       {"op": "def_var", "name": "f2", "norm": "f2", "xtype": "short", "dims": [1], "obs": ["schema"]},
                       {"op": "enddef"}]
                for r in range(3):   # (two: TWO record variables with different fill patterns join the existing records in one redefinition)
                    if two:
                        st.append({"op": "get", "v": 2, "mode": "coll", "itype": "short", "rec": r, "form": "vara", "n": W, "start": [r, 0], "count": [1, W], "obs": []})
                    st.append({"op": "get", "v": 1, "mode": "coll", "itype": "int", "rec": r, "form": "vara", "n": W, "start": [r, 0], "count": [1, W], "obs": []})
                    st.append({"op": "get", "v": 0, "mode": "coll", "itype": "int", "rec": r, "form": "vara", "n": W, "start": [r, 0], "count": [1, W], "obs": []})
                st.append({"op": "close"})
                for s in st:
                    s.setdefault("obs", O)
                ex.append({"x": "sb%d" % n, "np": np_, "steps": st})
                n += 1
    return ex


def run(tier, seed):
    rng = random.Random(seed)
    mc = filecheck.design_check()
    n = 400 if tier == "quick" else 3000
    execs = []
    i = 0
    for cfg, fmt in [("cfg/File_sim_ok.cfg", 1), ("cfg/File_sim_ok5.cfg", 5), ("cfg/File_sim_ok2.cfg", 2)]:
        ws = [h for h in filecheck.walks(cfg, n * 3, 16, seed + 300 + i) if fillish(h)][:n // 3 + 1]
        for h in ws:
            np_ = ([1, 2, 3] if tier == "quick" else [1, 2, 3, 4, 5, 7])[i % (3 if tier == "quick" else 6)]
            tr = filegen.Translator(rng, fmt=fmt, np=np_)
            execs.append({"x": "w%d" % i, "np": np_, "steps": tr.steps(h, filecheck.NAMES)})
            i += 1
    execs += scenarios(tier)
    return filecheck.run(PID, tier, seed, execs, mc,
                         "random walks of File_MC that exercise a fill mechanism (dataset set_fill before/after definitions, "
                         "def_var_fill on/off, _FillValue attributes, fill_var_rec, redefinitions adding fixed and record variables "
                         "with existing records), types of all formats, on 1..3 (thorough: up to 7) processes (the fill is divided "
                         "among the processes); every variable and record is read back and the file decoded after every data-mode call")


def replay(path):
    return filecheck.replay(PID, path)
