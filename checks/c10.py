"""C10 -- hints, process count and execution modes never change results.
spec/Config.tla: the outcome of step k of a program is a function of (program, k) alone (action property Stable, checked by
TLC on the bounded instance Config_MC; Trace_Config validates the projected outcomes of the SAME program executed under
every configuration).  Every configuration's trace is also validated against the configuration-free specification of its
family (Data: access forms and nonblocking schedules; MP: several ranks sharing a record variable; File: define /
redefine / attribute histories), which is what makes a different process count or division of the work -- where the
program text differs -- comparable: all of them must produce the logical content the same model holds."""
import copy, json, random
import vlib, datagen, datacheck, filegen, filecheck, mpgen
import c01, c05, hintscheck

PID = "C10"


def hints(**kw):
    return {"PNETCDF_HINTS": ";".join("%s=%s" % (k, v) for k, v in sorted(kw.items()))} if kw else {}


SAFE = {"PNETCDF_SAFE_MODE": "1"}
# (name, np, environment).  np differs => the work is divided differently (the program text differs per np)
CFG_A = [("base", 1, {}), ("ibuf8", 1, hints(nc_ibuf_size=8)), ("swap_on", 1, hints(nc_in_place_swap="enable")),
         ("swap_off", 1, hints(nc_in_place_swap="disable")), ("safe", 1, SAFE),
         ("np2", 2, {}), ("np2_aggr1", 2, hints(nc_num_aggrs_per_node=1)), ("np2_safe_ibuf", 2, dict(SAFE, **hints(nc_ibuf_size=8))),
         ("np3", 3, {}), ("np3_aggr1", 3, hints(nc_num_aggrs_per_node=1)), ("np3_aggr2", 3, hints(nc_num_aggrs_per_node=2)),
         ("np4_aggr2_swap", 4, hints(nc_num_aggrs_per_node=2, nc_in_place_swap="enable"))]
CFG_N = [("base", 1, {}), ("ibuf8", 1, hints(nc_ibuf_size=8)), ("ibuf64_swap_on", 1, hints(nc_ibuf_size=64, nc_in_place_swap="enable")),
         ("swap_off", 1, hints(nc_in_place_swap="disable")), ("safe", 1, SAFE)]
CFG_M = {2: [("base", {}), ("aggr1", hints(nc_num_aggrs_per_node=1)), ("safe", SAFE), ("ibuf8_swap_on", hints(nc_ibuf_size=8, nc_in_place_swap="enable"))],
         3: [("base", {}), ("aggr1", hints(nc_num_aggrs_per_node=1)), ("aggr2", hints(nc_num_aggrs_per_node=2))]}
H = lambda n: {"nc_hash_size_dim": str(n), "nc_hash_size_var": str(n), "nc_hash_size_gattr": str(n), "nc_hash_size_vattr": str(n)}
# File family: hints go through the MPI_Info object of create/open (the translator must know the alignments it asked for)
CFG_F = [("base", 1, None, {}), ("hash1", 1, H(1), {}), ("hash3_chunk", 1, dict(H(3), nc_header_read_chunk_size="16"), {}),
         ("hash4096", 1, H(4096), {}), ("align", 1, {"nc_header_align_size": "512", "nc_var_align_size": "8", "nc_record_align_size": "64"}, {}),
         ("safe", 1, None, SAFE), ("np2", 2, None, {}), ("np2_hash1_safe", 2, H(1), SAFE), ("np3_align", 3, {"nc_var_align_size": "16"}, {})]


def with_cfg(prog, name, np_, env, pid):
    e = copy.deepcopy(prog)
    e["x"] = "%s@%s" % (prog["x"], name)
    e["prog"] = "%s#np%d" % (prog["x"], np_)
    e["cfgname"] = name
    e["np"] = np_
    e["lenv"] = env or None
    return e


def logical(disk):
    """the logical content of a decoded file: everything but offsets, sizes and padding -- and but the variable data:
    elements never written hold whatever the MPI-IO layer's read-modify-write found beyond the end of the file, and the
    written ones are compared with the model under each configuration by the family specification (disk.data)"""
    if not isinstance(disk, dict) or "vars" not in disk:
        return disk
    return {"fmt": disk.get("fmt"), "numrecs": disk.get("numrecs"), "dims": disk.get("dims"), "gatts": disk.get("gatts"),
            "vars": [{k: v.get(k) for k in ("name", "type", "dimids", "atts")} for v in disk["vars"]]}


def strip_bufs(o):
    """read buffers are left out of the cross-configuration comparison: elements never written (beyond the end of the file
    in particular) come back as whatever the library's scratch memory held; every element that WAS written is pinned down
    under each configuration separately by the family specification"""
    if isinstance(o, dict):
        return {k: strip_bufs(v) for k, v in o.items() if k not in ("buf", "vals") and not (k == "bufsame" and isinstance(v, dict))}
    if isinstance(o, list):
        return [strip_bufs(x) for x in o]
    return o


def outcome(ev):
    """projection of one event (single- or multi-rank) onto what C10 calls the result"""
    rks = ev.get("rk") or [ev]
    o = {"e": ev.get("e"), "rc": [r.get("rc") for r in rks], "out": [strip_bufs(r.get("out")) for r in rks]}
    for r in rks[:1]:
        ob = r.get("obs") or {}
        for k in ("nreqs", "numrecs", "schema", "abuf", "disknumrecs"):
            if k in ob:
                o[k] = ob[k]
        if "disk" in ob:
            o["disk"] = logical(ob["disk"])
    return json.dumps(o, sort_keys=True)


def has_invalid(h):
    """MP histories in which some rank passes an invalid argument: safe mode is DOCUMENTED to turn a rank-local argument
    error of a collective call into the same error on every rank (C08 covers both modes), so these programs are not
    replayed under safe mode"""
    s = json.dumps(h)
    return any(('"cls": "%s"' % k) in s for k in ("einvalcoords", "eedge", "enotvar", "estride", "enegcnt", "echar", "eiomismatch"))


def config_traces(execs, sink):
    """one trace per (program, np): the outcomes of its steps under every configuration with that np"""
    byprog = {}
    for e in execs:
        if sink.get(e["x"]) is not None:
            byprog.setdefault(e["prog"], []).append(e)
    traces = []
    for prog, lst in sorted(byprog.items()):
        if len(lst) < 2:
            continue
        evs = []
        for e in lst:
            for k, ev in enumerate(sink[e["x"]]):
                evs.append({"e": "obs", "c": e["cfgname"], "k": str(k), "o": outcome(ev)})
        traces.append((prog, evs))
    return traces


def run(tier, seed):
    rng = random.Random(seed)
    q = tier == "quick"
    cmc = vlib.tlc_check("Config_MC.tla", "cfg/Config_mc.cfg", workers=2)
    if not cmc["ok"]:
        raise vlib.InfraError("Config design check failed:\n" + cmc["out"][-2000:])
    mcD = datacheck.design_check(tier)
    violations, cov_parts, all_execs, sink = [], {}, [], {}

    # ---- family A: blocking access forms (C01's generator), 1-4 processes
    ws = datacheck.walks(40 if q else 250, 8, seed, cfg="cfg/Access_sim.cfg", module="Access_MC.tla")
    exA = []
    for n, h in enumerate(ws):
        fmt = [None, "64BIT_OFFSET", "64BIT_DATA"][n % 3]
        types = c01.CDF5 if fmt == "64BIT_DATA" else c01.CLASSIC
        vars_ = [("v%d" % i, c01.VDIMS[i], rng.choice(types)) for i in range(len(c01.VDIMS))]
        progs = {}
        for name, np_, env in CFG_A:
            if np_ not in progs:
                r2 = random.Random(seed * 1000 + n * 10 + np_)
                tr = datagen.Translator(r2, vars_, c01.DIMS, modes=(np_ == 1))
                progs[np_] = {"x": "A%d" % n, "steps": datagen.fixture(vars_, c01.DIMS, fmt=fmt) + c01.steps_for(h, r2, np_, vars_, tr)}
            exA.append(with_cfg(progs[np_], name, np_, env, PID))
    rA = datacheck.run(PID, tier, seed, exA, mcD, header=lambda evs: {"vars": c01.VT}, to_events=c01.serial, sink=sink)
    # ... and the schema with extents of 5 in other than the fastest dimension, under the multi-process configurations
    ws = datacheck.walks(40 if q else 250, 8, seed + 1, cfg="cfg/Access_sim_c.cfg", module="Access_MC.tla")
    exC = []
    for n, h in enumerate(ws):
        fmt = [None, "64BIT_OFFSET", "64BIT_DATA"][n % 3]
        types = c01.CDF5 if fmt == "64BIT_DATA" else c01.CLASSIC
        vars_ = [("v%d" % i, c01.VDIMSC[i], rng.choice(types)) for i in range(len(c01.VDIMSC))]
        progs = {}
        for name, np_, env in CFG_A:
            if np_ == 1 and name != "base":
                continue
            if np_ not in progs:
                r2 = random.Random(seed * 1000 + n * 10 + np_ + 5)
                tr = datagen.Translator(r2, vars_, c01.DIMSC, modes=(np_ == 1))
                progs[np_] = {"x": "C%d" % n, "steps": datagen.fixture(vars_, c01.DIMSC, fmt=fmt) + c01.steps_for(h, r2, np_, vars_, tr, c01.VDIMSC, c01.DIMSC)}
            exC.append(with_cfg(progs[np_], name, np_, env, PID))
    rC = datacheck.run(PID, tier, seed, exC, mcD, header=lambda evs: {"vars": c01.VTC}, to_events=c01.serial, sink=sink)

    # ---- family N: nonblocking schedules (C02's generator), one process
    V, D = datagen.NB_VARS, datagen.NB_DIMS
    ws = datacheck.walks(120 if q else 1200, 12, seed + 3, cfg="cfg/Nonblock_sim.cfg", module="Nonblock_MC.tla")
    exN = []
    for n, h in enumerate(ws):
        tr = datagen.Translator(random.Random(seed * 77 + n), V, D, flex=True, conv=True, modes=True)
        prog = {"x": "N%d" % n, "steps": datagen.fixture(V, D, fmt=[None, "64BIT_OFFSET", "64BIT_DATA"][n % 3]) + tr.steps(h)}
        for name, np_, env in CFG_N:
            exN.append(with_cfg(prog, name, np_, env, PID))
    rN = datacheck.run(PID, tier, seed, exN, mcD, header=datagen.header_for(V, D), sink=sink)

    # ---- family M: several ranks sharing a record variable (C05's generator), 2-3 processes
    mcM = vlib.tlc_check("MP_MC.tla", "cfg/MP_mc.cfg", workers=8)
    if not mcM["ok"]:
        raise vlib.InfraError("MP design check failed:\n" + mcM["out"][-3000:])
    exM = []
    for np_, cfg in [(2, "cfg/MP_sim2.cfg"), (3, "cfg/MP_sim.cfg")]:
        for n, h in enumerate(c05.walks("MP_MC.tla", cfg, 50 if q else 500, 12, seed + 20 + np_)):
            tr = mpgen.Translator(random.Random(seed * 31 + n), np_)
            prog = {"x": "M%d_%d" % (np_, n), "steps": mpgen.fixture(fmt=[None, "64BIT_OFFSET", "64BIT_DATA"][n % 3]) + tr.steps(h)}
            for name, env in CFG_M[np_]:
                if name == "safe" and has_invalid(h):
                    continue
                exM.append(with_cfg(prog, name, np_, env, PID))
    rM = c05.run_mp(PID, tier, seed, exM, "cfg/Trace_MP.cfg", mcM, "", sink=sink)

    # ---- family F: definition / redefinition / attribute histories (C07/C06's generator), 1-3 processes
    mcF = filecheck.design_check()
    exF = []
    i = 0
    for cfg, fmt in [("cfg/File_sim_ok.cfg", 1), ("cfg/File_sim_ok2.cfg", 2), ("cfg/File_sim_ok5.cfg", 5), ("cfg/File_sim.cfg", 1)]:
        for h in filecheck.walks(cfg, 20 if q else 200, 16, seed + 300 + i):
            fam = ["ascii", "utf8", "collide"][i % 3]
            for name, np_, info, env in CFG_F:
                tr = filegen.Translator(random.Random(seed * 13 + i), fmt=fmt, family=fam, info=info, np=np_)
                prog = {"x": "F%d" % i, "steps": tr.steps(h, filecheck.NAMES)}
                exF.append(with_cfg(prog, name, np_, env, PID))
            i += 1
    # redefinitions that move data, on 1-4 processes (the data movement is divided among the processes)
    import c06
    g = c06.grow_scenarios(random.Random(seed + 11), "thorough")
    random.Random(seed + 12).shuffle(g)
    for e in g[:80 if q else 600]:
        e = dict(e, x="G" + e["x"][1:], prog="G%s#np%d" % (e["x"][1:], e["np"]), cfgname="np%d" % e["np"])
        exF.append(e)
    rF = filecheck.run(PID, tier, seed, exF, mcF, "", sink=sink)

    # ---- family H: the hint values reported back are the ones in force (Hints.tla), 1-2 processes
    rH = hintscheck.run(PID, tier, seed)
    violations += rH["violations"]

    for fam, r in (("A", rA), ("C", rC), ("N", rN), ("M", rM), ("F", rF)):
        for v in r["violations"]:
            violations.append(dict(v, sig="family=%s;%s" % (fam, v["sig"])))
        cov_parts[fam] = {k: r["coverage"].get(k) for k in ("evaluations", "traces_validated_against_impl", "trace_states", "rejected_first_pass")}
    cov_parts["H"] = rH["coverage"]
    all_execs = exA + exC + exN + exM + exF
    byx = {e["x"]: e for e in all_execs}

    # ---- the same program under different configurations: outcomes must coincide (Config.tla)
    traces = config_traces(all_execs, sink)
    acc, rej, st = vlib.validate_traces(traces, "Trace_Config.tla", "cfg/Trace_Config.cfg", tag="c10-config", max_rejects=12)
    for prog, idx, tail in rej:
        evs = dict(traces)[prog]
        ev = evs[idx] if 0 <= idx < len(evs) else {}
        first = [e for e in evs if e["k"] == ev.get("k")][0] if ev else {}
        rp = vlib.save_replay(PID, "cfg_" + prog.replace("#", "_"), {"kind": "config", "prog": prog,
                              "execs": [e for e in all_execs if e["prog"] == prog], "step": ev.get("k"),
                              "first": first, "differs": ev, "tlc": tail})
        o = json.loads(ev.get("o", "{}"))
        violations.append({"sig": "family=%s;config=%s;vs=%s;call=%s;rc=%s" % (prog[0], ev.get("c"), first.get("c"), o.get("e"), o.get("rc")),
                           "replay": rp,
                           "what": "step %s of program %s gives a different outcome under configuration %s than under %s" % (
                               ev.get("k"), prog, ev.get("c"), first.get("c"))})
    cov = {"states": rH["mc"]["stats"].get("distinct", 0) + cmc["stats"].get("distinct", 0) + mcD["stats"].get("distinct", 0) + mcM["stats"].get("distinct", 0) + mcF["stats"].get("distinct", 0),
           "transitions": mcD["stats"].get("generated", 0) + mcM["stats"].get("generated", 0) + mcF["stats"].get("generated", 0),
           "traces_validated_against_impl": sum(p["traces_validated_against_impl"] or 0 for p in cov_parts.values()),
           "evaluations": len(all_execs) + len(rH["execs"]), "distinct_nontrivial": len({e["prog"] for e in all_execs}),
           "programs_compared_across_configurations": len(acc), "config_trace_states": st,
           "families": cov_parts,
           "configurations": {"A": [c[0] for c in CFG_A], "N": [c[0] for c in CFG_N], "M": {str(k): [c[0] for c in v] for k, v in CFG_M.items()},
                              "F": [c[0] for c in CFG_F]},
           "samples": [[{k: v for k, v in s.items() if k not in ("obs", "setup")} for s in e["steps"] if "setup" not in s][:5] for e in all_execs[:2]],
           "rule": "each generated program (TLC -simulate walks of Access_MC, Nonblock_MC, MP_MC, File_MC) is executed under every "
                   "configuration of its family; every trace is validated against the configuration-free specification, and for each "
                   "(program, process count) the projected outcomes of all steps under all configurations are validated against "
                   "Config.tla (must coincide); distinct_nontrivial counts (program, process count) pairs; family H: random walks of "
                   "Hints_MC (requested hints x enddef alignment arguments x variable kinds x redefinitions x reopen) whose "
                   "inq_file_info reports and reported layouts are validated against Hints.tla",
           "exhaustive": False}
    return {"level": "model_checking", "coverage": cov, "violations": violations,
            "assumptions": ["configurations are the documented performance/layout-only settings listed in coverage.configurations; "
                            "all ranks on one node (intra-node aggregation groups = the ranks of the job)",
                            "never-written elements of no-fill variables are compared across configurations of the same program as "
                            "read from the file (holes read as zeros on this file system)"]}


def replay(path):
    r = json.load(open(path))
    if r.get("kind") == "hints":
        return hintscheck.replay(PID, path)
    if r.get("kind") != "config":
        ex = r["exec"]
        fam = ex["x"][0]
        if fam in ("A", "N", "C"):
            hdr = (lambda evs: {"vars": c01.VT}) if fam == "A" else (lambda evs: {"vars": c01.VTC}) if fam == "C" else datagen.header_for(datagen.NB_VARS, datagen.NB_DIMS)
            bld = vlib.build("dbg")
            res, acc, rej, _ = vlib.run_validate(bld, [ex], datacheck.MODULE, datacheck.CFG_DEV if "deviation" not in r else datacheck.CFG,
                                                 np=ex.get("np", 1), par=1, header=hdr, to_events=c01.serial if fam in ("A", "C") else vlib.flat1)
            if rej:
                print(rej[0][2][:800])
                print("VIOLATION property=%s replay=%s" % (PID, path))
                return 1
            print("accepted")
            return 0
        if fam == "M":
            return c05.replay(path) if False else _replay_mp(r, path)
        return filecheck.replay(PID, path)
    bld = vlib.build("dbg")
    sink = {}
    execs = r["execs"]
    fam = r["prog"][0]
    if fam in ("A", "N", "C"):
        hdr = (lambda evs: {"vars": c01.VT}) if fam == "A" else (lambda evs: {"vars": c01.VTC}) if fam == "C" else datagen.header_for(datagen.NB_VARS, datagen.NB_DIMS)
        res, acc, rej, _ = vlib.run_validate(bld, execs, datacheck.MODULE, datacheck.CFG_DEV, par=4, header=hdr,
                                             to_events=c01.serial if fam in ("A", "C") else vlib.flat1)
    elif fam == "M":
        np_ = execs[0]["np"]
        res, acc, rej, _ = vlib.run_validate(bld, execs, c05.MODULE, "cfg/Trace_MP.cfg", np=np_, shim=True, par=4,
                                             header=lambda evs: {"np": np_}, to_events=vlib.flatn)
    else:
        np_ = execs[0]["np"]
        res, acc, rej, _ = vlib.run_validate(bld, execs, filecheck.MODULE, filecheck.CFG, np=np_, par=4,
                                             to_events=filecheck.rank0 if np_ > 1 else vlib.flat1)
    sink.update({x: rr.get("events") for x, rr in res.items()})
    traces = config_traces(execs, sink)
    acc, rej, st = vlib.validate_traces(traces, "Trace_Config.tla", "cfg/Trace_Config.cfg", tag="c10-replay")
    if rej:
        print(rej[0][2][:800])
        print("VIOLATION property=%s replay=%s" % (PID, path))
        return 1
    print("accepted")
    return 0


def _replay_mp(r, path):
    ex = r["exec"]
    bld = vlib.build("dbg")
    res, acc, rej, _ = vlib.run_validate(bld, [ex], c05.MODULE, r.get("cfg", "cfg/Trace_MP.cfg"), np=ex["np"], shim=True, par=1,
                                         header=lambda evs: {"np": ex["np"]}, to_events=vlib.flatn)
    if rej:
        print(rej[0][2][:800])
        print("VIOLATION property=%s replay=%s" % (PID, path))
        return 1
    print("accepted")
    return 0
