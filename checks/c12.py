"""C12 -- the burst-buffer driver is transparent to the application.
spec/BB.tla: per-process logs of staged writes; a process reads its own writes; wait / flush / sync / redefinition / close
(and leaving independent mode) commit the writes of the calling processes for everyone, on disk too; until then another
process' write may or may not be seen; the record count a rank reports lies between what is committed plus its own
writes and everything written.  BB_MC checks the design (NoDoublePending, OwnWrites, SyncClean, Monotone) and generates
behaviours for 1-3 processes; each is executed with the burst-buffer driver under several flush-buffer sizes / shared or
per-process logs / retention, AND with the default driver (one of the specification's behaviours: same final content);
Trace_BB validates reads, per-rank record counts, the destination file decoded at every synchronisation point and after
close, and the log directory after close."""
import json, random
import vlib, c05

PID = "C12"
MODULE = "Trace_BB.tla"
W = 2
OBS = ["numrecs"]
SOBS = ["numrecs", "disk"]


def S(**k):
    k["setup"] = 1
    return k


def bb_info(fbs, shared, keep):
    h = {"nc_burst_buf": "enable", "nc_burst_buf_dirname": "$SCRATCH/bb", "nc_burst_buf_overwrite": "enable",
         "nc_burst_buf_del_on_close": "disable" if keep else "enable"}
    if fbs:
        h["nc_burst_buf_flush_buffer_size"] = str(fbs)
    if shared:
        h["nc_burst_buf_shared_logs"] = "enable"
    return h


def fixture(info, fmt):
    return [S(op="mkdir", path="bb"),
            S(op="create", path="a.nc", cmode=["CLOBBER"] + ([fmt] if fmt else []), info=info),
            S(op="def_dim", name="t", len=0), S(op="def_dim", name="x", len=W),
            S(op="def_var", name="F", xtype="int", dims=[1]), S(op="def_var", name="R", xtype="int", dims=[0, 1]),
            S(op="enddef")]


def req_of(rows):
    """API arguments (form vars) addressing a set of rows: {0} = the fixed variable, else records s, s+st, ..."""
    rows = sorted(rows)
    if not rows:
        return {"v": 1, "start": [0, 0], "count": [0, W], "stride": [1, 1]}
    if rows == [0]:
        return {"v": 0, "start": [0], "count": [W], "stride": [1]}
    st = rows[1] - rows[0] if len(rows) > 1 else 1
    return {"v": 1, "start": [rows[0] - 1, 0], "count": [len(rows), W], "stride": [st, 1]}


def put_args(Wset):
    ws = sorted(Wset, key=lambda w: w["row"])
    a = req_of([w["row"] for w in ws])
    a["rows"] = [w["row"] for w in ws]
    a["vals"] = [x for w in ws for x in w["tok"]]
    return a


def get_args(rows):
    a = req_of(rows)
    a["rows"] = sorted(rows)
    a["n"] = W * len(rows)
    a["vals"] = None
    return a


class Translator:
    """BB histories -> driver steps.  Mirrors just enough of the model (committed rows, own pending rows) to choose READS
    that are legal for the library (records below the count the rank can see); never used as an oracle."""

    def __init__(self, rng, np_, info, quiet=False):
        self.rng, self.np, self.info = rng, np_, info
        self.quiet = quiet       # no reads between writes (a read replays the log: the log then never grows)
        self.committed = set()
        self.pend = {p: set() for p in range(np_)}
        self.posted = {p: set() for p in range(np_)}     # rows of nonblocking puts not yet waited for
        self.gcount = 0                                  # record count as of the last collective synchronisation point
        self.mine = {p: 0 for p in range(np_)}           # record count implied by the rank's own completed writes
        self.indep = False
        self.nreq = 0

    def visible(self, p):
        top = max(self.gcount, self.mine[p])
        return [0] + list(range(1, top + 1))

    def coll(self, op, per_rank, obs=OBS):
        st = {"op": op, "form": "vars", "mode": "coll", "itype": "int", "obs": obs}
        st.update(per_rank[0])
        pr = {}
        for p in range(1, self.np):
            d = dict(per_rank[p])
            for k in st:
                if k not in d and k in ("rows", "vals", "n"):
                    d[k] = None
            pr[str(p)] = d
        if pr:
            st["pr"] = pr
        return {k: v for k, v in st.items() if v is not None or k == "vals"}

    def reads(self, everything=False):
        """reads of rows each rank may legally address"""
        out = []
        if self.quiet and not everything:
            return out
        if self.indep:
            for p in range(self.np):
                if self.rng.random() < (1.0 if everything else 0.5):
                    vis = self.visible(p)
                    rows = self.pick(vis, everything)
                    if rows:
                        a = get_args(rows)
                        a.update(op="get", form="vars", mode="indep", itype="int", ranks=[p], obs=OBS)
                        a = {k: v for k, v in a.items() if v is not None}
                        out.append(a)
            return out
        # collective: every rank reads the same rows (visible to all), or nothing
        common = set(self.visible(0))
        for p in range(1, self.np):
            common &= set(self.visible(p))
        for sel in ([[0]] + ([[r for r in sorted(common) if r > 0]] if len(common) > 1 else []) if everything else [self.pick(sorted(common), False)]):
            rows = [r for r in sel if r in common]
            if not rows:
                continue
            per = []
            for p in range(self.np):
                mine = rows if (everything or self.rng.random() < 0.7) else []
                a = get_args(mine)
                per.append({k: v for k, v in a.items() if v is not None})
            out.append(self.coll("get", per))
        return out

    def pick(self, vis, everything):
        recs = [r for r in vis if r > 0]
        if everything:
            return recs if recs and self.rng.random() < 0.7 else [0]
        c = self.rng.choice(["F", "one", "two", "stride"])
        if c == "F" or not recs:
            return [0]
        if c == "one" or len(recs) < 2:
            return [self.rng.choice(recs)]
        if c == "two":
            s = self.rng.choice(recs[:-1])
            return [s, s + 1]
        if len(recs) >= 3:
            return [recs[0], recs[2]]
        return [recs[0]]

    def steps(self, hist):
        out = []
        for c in hist:
            k = c["c"]
            if k == "coll_put":
                per = [put_args(c["WS"][str(p)] if isinstance(c["WS"], dict) else c["WS"][p]) for p in range(self.np)]
                out.append(self.coll("put", per))
                for p in range(self.np):
                    self.pend[p] |= set(per[p]["rows"])
                    self.mine[p] = max([self.mine[p]] + per[p]["rows"])
                out += self.reads()
            elif k in ("indep_put", "post"):
                a = put_args(c["W"])
                a.update(op="put", form="vars", itype="int", ranks=[c["p"]], obs=OBS)
                if k == "post":
                    self.nreq += 1
                    a.update(kind="i", req="q%d" % self.nreq)
                else:
                    a["mode"] = "indep"
                out.append(a)
                (self.posted if k == "post" else self.pend)[c["p"]] |= set(a["rows"])
                if k != "post":
                    self.mine[c["p"]] = max([self.mine[c["p"]]] + a["rows"])
                out += self.reads()
            elif k == "get":
                out += self.reads()
            elif k == "begin_indep":
                out.append({"op": "begin_indep", "obs": OBS})
                self.indep = True
            elif k == "end_indep":
                out.append({"op": "end_indep", "obs": OBS})
                self.indep = False
                out += self.reads()
            elif k in ("wait", "flush") and "p" in c:
                p = c["p"]
                if k == "wait":
                    out.append({"op": "wait", "mode": "indep", "special": "ALL", "ranks": [p], "obs": OBS})
                else:
                    out.append({"op": "flush", "ranks": [p], "obs": OBS})
                self.committed |= self.pend[p]
                self.pend[p] = set()
                if k == "wait":
                    self.committed |= self.posted[p]
                    self.mine[p] = max([self.mine[p]] + list(self.posted[p]))
                    self.posted[p] = set()
                out += self.reads()
            else:
                if k == "wait_all":
                    out.append({"op": "wait", "mode": "coll", "special": "ALL", "obs": SOBS})
                elif k in ("flush", "sync"):
                    out.append({"op": k, "obs": SOBS})
                elif k == "redef_enddef":
                    out.append({"op": "redef", "obs": SOBS})
                    out.append({"op": "enddef", "obs": OBS})
                elif k == "reopen":
                    # (the model allows close only with no nonblocking request outstanding; TLC generates it only then)
                    out.append({"op": "close", "obs": ["disk"]})
                    out.append({"op": "open", "path": "a.nc", "omode": ["WRITE"], "info": self.info, "obs": SOBS})
                else:
                    raise ValueError(k)
                if k in ("redef_enddef", "reopen"):
                    self.indep = False
                for p in range(self.np):
                    self.committed |= self.pend[p]
                    self.pend[p] = set()
                    if k == "wait_all":
                        self.committed |= self.posted[p]
                        self.posted[p] = set()
                self.gcount = max([0] + list(self.committed))
                out += self.reads(everything=True)
        return out


def scenarios(np_):
    """hand-written BB histories (validated like the generated ones): many single-row writes pending on one process when
    the log is replayed, so that a small flush buffer needs several rounds"""
    def tok(r, t):
        return [t * 10 + r, t * 10 + r + 5]

    def cp(owner, rows, t):
        return {"c": "coll_put", "WS": {str(p): ([{"row": r, "tok": tok(r, t)} for r in rows] if p == owner else []) for p in range(np_)}}
    hs = []
    for how in ("flush", "wait_all", "sync", "redef_enddef", "reopen"):
        h = []
        t = 1
        for r in (0, 1, 2, 3):
            h.append(cp(r % np_ if how == "sync" else 0, [r], t))
            t += 1
        h.append({"c": how})
        # second generation of the same rows, other values, in another order
        for r in (3, 1, 0, 2):
            h.append(cp(0, [r], t))
            t += 1
        h.append({"c": "flush"})
        hs.append(h)
    return hs


def sig_of(tr, idx, status, tail):
    first = tail.splitlines()[0] if tail else ""
    failed = ",".join(__import__("re").findall(r'"FAILED", "([^"]+)"', first))
    if idx >= len(tr):
        return "rc=ABNORMAL;status=%s" % status
    ev = tr[idx]
    rk = ev.get("rk", [])
    return "call=%s;mode=%s;kind=%s;failed=%s;rcs=%s;status=%s" % (
        ev.get("e"), rk[0]["a"].get("mode") if rk else None, rk[0]["a"].get("kind") if rk else None, failed,
        ",".join(r.get("rc", "?") for r in rk), status)


CONFIGS = [("bb", 0, False, False), ("bb_fbs24", 24, False, False), ("bb_fbs40_shared", 40, True, False),
           ("bb_fbs64_keep", 64, False, True), ("bb_shared", 0, True, False), ("default", None, None, None)]


def run(tier, seed):
    rng = random.Random(seed)
    mc = vlib.tlc_check("BB_MC.tla", "cfg/BB_mc.cfg", workers=8)
    if not mc["ok"]:
        raise vlib.InfraError("BB design check failed:\n" + mc["out"][-3000:])
    bld = vlib.build("dbg")
    nwalk = 60 if tier == "quick" else 1500
    violations, nacc, states, nrej, execs_all = [], 0, 0, 0, []
    for np_ in (1, 2, 3):
        ws = c05.walks("BB_MC.tla", "cfg/BB_sim%d.cfg" % np_, nwalk, 12, seed + 60 + np_)
        execs = []
        for n, h in enumerate(ws):
            fmt = [None, "64BIT_OFFSET", "64BIT_DATA"][n % 3]
            cfgs = CONFIGS if tier != "quick" else [CONFIGS[n % 5], CONFIGS[(n + 2) % 5], CONFIGS[5]]
            for name, fbs, shared, keep in cfgs:
                info = bb_info(fbs, shared, keep) if fbs is not None else None
                tr = Translator(random.Random(seed * 101 + n), np_, info, quiet=(n % 2 == 1))
                steps = fixture(info, fmt) + tr.steps(h)
                if any(tr.posted.values()):       # outstanding nonblocking requests are completed before the file is closed
                    if tr.indep:
                        steps.append({"op": "end_indep", "obs": OBS})
                    steps.append({"op": "wait", "mode": "coll", "special": "ALL", "obs": SOBS})
                steps += [{"op": "close", "obs": ["disk"]}, {"op": "noop", "keep": bool(keep), "obs": ["logfiles"]}]
                execs.append({"x": "n%dw%d@%s" % (np_, n, name), "np": np_, "steps": steps})
        for n, h in enumerate(scenarios(np_)):
            for name, fbs, shared, keep in [("bb_fbs16", 16, False, False), ("bb_fbs24_shared", 24, True, False), ("bb", 0, False, False), ("default", None, None, None)]:
                info = bb_info(fbs, shared, keep) if fbs is not None else None
                tr = Translator(random.Random(seed + n), np_, info, quiet=True)
                steps = fixture(info, None) + tr.steps(h)
                steps += [{"op": "close", "obs": ["disk"]}, {"op": "noop", "keep": bool(keep), "obs": ["logfiles"]}]
                execs.append({"x": "n%ds%d@%s" % (np_, n, name), "np": np_, "steps": steps})
        kw = dict(np=np_, header=(lambda evs, n=np_: {"np": n}), to_events=vlib.flatn, per_step_timeout=20)
        cfg = "cfg/Trace_BB%d.cfg" % np_
        res, acc, rej, st = vlib.run_validate(bld, execs, MODULE, cfg, tag="c12-np%d" % np_, **kw)
        nacc += len(acc)
        states += st
        nrej += len(rej)
        execs_all += execs
        byx = {e["x"]: e for e in execs}
        for x, idx, tail, r2 in vlib.confirm(bld, execs, rej, MODULE, cfg, **kw):
            tr_ = res[x]["events"]
            rp = vlib.save_replay(PID, x, {"exec": byx[x], "trace": tr_[max(0, idx - 2):idx + 1], "rejected_index": idx, "tlc": tail,
                                           "log": res[x]["log"][-2000:], "cfg": cfg})
            violations.append({"sig": "config=%s;%s" % (x.split("@")[1], sig_of(tr_, idx, res[x]["status"], tail)), "replay": rp,
                               "what": "step %d not explained by BB (status %s) %s: %s" % (
                                   idx, res[x]["status"], tail.splitlines()[0] if tail else "", json.dumps(tr_[idx] if idx < len(tr_) else {})[:1200])})
    calls = set()
    for e in execs_all:
        for s in e["steps"]:
            if "setup" not in s:
                calls.add(json.dumps({k: v for k, v in s.items() if k not in ("obs", "vals")}, sort_keys=True) + str(e["np"]))
    cov = {"states": mc["stats"].get("distinct", 0), "transitions": mc["stats"].get("generated", 0),
           "traces_validated_against_impl": nacc, "evaluations": len(execs_all), "distinct_nontrivial": len(calls),
           "trace_states": states, "rejected_first_pass": nrej, "process_counts": [1, 2, 3],
           "configurations": [c[0] for c in CONFIGS],
           "samples": [[{k: v for k, v in s.items() if k not in ("obs", "setup")} for s in e["steps"] if "setup" not in s][:6] for e in execs_all[:2]],
           "rule": "random walks (TLC -simulate of BB_MC, depth 12) on 1-3 processes: collective puts with per-rank row sets (fixed variable, "
                   "records with count 1-2 and stride 1-2, or nothing), independent puts, nonblocking posts, wait_all / wait, flush "
                   "(collective and independent), sync, redef+enddef, close+reopen, begin/end independent mode, reads after every "
                   "write (own rows, committed rows; every rank the same rows in collective mode); no row written twice between "
                   "synchronisation points; each walk under burst-buffer configurations (flush buffer unlimited / 24 / 40 / 64 bytes, "
                   "shared logs, log retention) and under the default driver",
           "exhaustive": False,
           "action_coverage": {k: v[0] for k, v in mc["coverage"].items() if v[0] > 0 and not k.startswith("line")}}
    return {"level": "model_checking", "coverage": cov, "violations": violations,
            "assumptions": ["harness barriers between steps; the destination file is decoded by rank 0 after the barrier that follows the call",
                            "whole-row writes of a two-element row; a flush buffer of 24 bytes exceeds any single request's row"]}


def replay(path):
    r = json.load(open(path))
    bld = vlib.build("dbg")
    ex = r["exec"]
    res, acc, rej, _ = vlib.run_validate(bld, [ex], MODULE, r.get("cfg", "cfg/Trace_BB%d.cfg" % ex["np"]), np=ex["np"], par=1,
                                         header=lambda evs: {"np": ex["np"]}, to_events=vlib.flatn)
    if rej:
        print(rej[0][2][:800])
        print("VIOLATION property=%s replay=%s" % (PID, path))
        return 1
    print("accepted")
    return 0
