"""Translation of File-model histories (TLC output) into driver scripts: concretises abstract names (ASCII, multi-byte
UTF-8 given in NFD spelling, names colliding in the library's name hash), attribute values of the attribute's type,
alignment hints / enddef arguments, formats; tracks just enough (dimension lengths, shapes) to address the data calls."""
import random, unicodedata

OBS = ["schema", "disk", "layout", "exists", "sha"]
NATIVE = {"byte": "schar", "char": "text", "short": "short", "int": "int", "float": "float", "double": "double",
          "ubyte": "uchar", "ushort": "ushort", "uint": "uint", "int64": "longlong", "uint64": "ulonglong"}
FMT = {1: None, 2: "64BIT_OFFSET", 5: "64BIT_DATA"}


# the second file of an execution (cross-file attribute copies): global x1 (int), x2 (double), variable attribute x3 (short)
# (each in an attribute list of its own, so that renaming one never collides with another)
OTHER_SRC = {"int": (-1, "x1"), "double": (0, "x2"), "short": (1, "x3")}


def other_file_steps():
    S = lambda **k: dict(k, f=1, other=1, obs=[])
    return [S(op="create", path="b.nc", cmode=["CLOBBER"]), S(op="def_dim", name="q", len=2),
            S(op="def_var", name="w", xtype="int", dims=[0]), S(op="def_var", name="w2", xtype="int", dims=[0]),
            S(op="def_var", name="sink", xtype="int", dims=[0]),
            S(op="put_att", v=-1, name="x1", xtype="int", itype="int", vals=[7], n=1),
            S(op="put_att", v=0, name="x2", xtype="double", itype="double", vals=[9, 9, 9], n=3),
            S(op="put_att", v=1, name="x3", xtype="short", itype="short", vals=[7, 8], n=2),
            S(op="redef") if False else S(op="noop")]


def bernstein(s):
    h = 5381
    for ch in s.encode("utf-8"):
        h = ((h << 5) + h + ch) & 0xFFFFFFFF
    return h


def colliding(nshort, nlong, size, rng):
    """nshort 2-letter and nlong 4-letter ASCII names, all with the same Bernstein hash modulo size.  (The model gives every
    short abstract name one byte length and every long one another: the concrete names of a class must be equally long.)"""
    import itertools, string
    buckets = {}
    for a, b in itertools.product(string.ascii_lowercase, repeat=2):
        buckets.setdefault(bernstein(a + b) % size, []).append(a + b)
    good = [k for k, v in buckets.items() if len(v) >= max(1, nshort)]
    target = rng.choice(good)
    shorts = rng.sample(buckets[target], nshort)
    longs = []
    while len(longs) < nlong:
        s = "".join(rng.choice(string.ascii_lowercase) for _ in range(4))
        if bernstein(s) % size == target and s not in longs:
            longs.append(s)
    return shorts, longs


def name_table(names, rng, family):
    """abstract name -> (raw spelling passed to the library, NFC-normalised name)"""
    names = sorted(names)
    tab = {}
    if family == "ascii":
        # (the model gives every short abstract name one byte length and every long one another: equally long concrete names per class)
        pool = {"a": "a", "b": "b", "c": "c", "d": "d", "bbb": "bbb", "long1": "temperature", "long2": "air_density"}
        for n in names:
            tab[n] = pool.get(n, n)
    elif family == "utf8":
        pool = {"a": "é", "b": "ñ", "c": "ü", "bbb": "åçz", "long1": "温度_t", "long2": "Äp_ölx"}      # 2 bytes / 8 bytes
        for n in names:
            tab[n] = pool.get(n, n)
    elif family == "maxlen":
        # the long names are exactly NC_MAX_NAME (256) bytes long -- the longest name the format and the library allow
        pool = {"long1": "temperature_" + "x" * 244, "long2": "air_density_" + "y" * 244}
        for n in names:
            tab[n] = pool.get(n, n)
    elif family == "collide":
        shorts = [n for n in names if len(n) == 1 or n == "bbb"]
        longs = [n for n in names if n not in shorts and not n.startswith("_")]      # (_FillValue keeps its spelling)
        for n in names:
            if n.startswith("_"):
                tab[n] = n
        cs, cl = colliding(len(shorts), len(longs), 256, rng)
        for n, c in zip(shorts, cs):
            tab[n] = c
        for n, c in zip(longs, cl):
            tab[n] = c
    else:
        raise ValueError(family)
    return {n: (raw, unicodedata.normalize("NFC", raw)) for n, raw in tab.items()}


def attvals(xtype, vs, rng):
    """concrete attribute values of the attribute's type for the abstract value list vs"""
    if xtype == "char":
        return "".join(chr(96 + (v % 26)) for v in vs)
    return list(vs)


class Translator:
    def __init__(self, rng, fmt=1, family="ascii", np=1, info=None, enddef_args=None, gets=True, obs=OBS):
        self.rng = rng
        self.fmt = fmt
        self.family = family
        self.np = np
        self.info = info or {}
        self.enddef_args = enddef_args
        self.gets = gets
        self.obs = obs
        self.dims = []     # [norm name, len]
        self.vars = []     # [norm name, xtype, dimids]
        self.numrecs = 0
        self.mode = "def"
        self.fresh = True
        self.tab = None
        self.saved = None
        self.other_names = {}

    def N(self, n):
        return self.tab[n] if n in self.tab else (n, n)

    def want(self):
        """alignments the first enddef of a new file must honour (0 = unspecified)"""
        h = int(self.info.get("nc_header_align_size", 0) or self.info.get("nc_var_align_size", 0) or 0)
        r = int(self.info.get("nc_record_align_size", 0) or 0)
        if self.enddef_args:
            h = h or self.enddef_args.get("v_align", 0)
            r = r or self.enddef_args.get("r_align", 0)
        up4 = lambda x: (x + 3) // 4 * 4        # documented: alignments are rounded up to a multiple of 4
        return up4(h), up4(r)

    def rowlen(self, v):
        name, xt, dimids = self.vars[v]
        shape = [self.dims[d][1] for d in dimids]
        isrec = bool(shape) and shape[0] == 0
        n = 1
        for s in (shape[1:] if isrec else shape):
            n *= s
        return n, isrec, shape

    def put_step(self, v, r, toks):
        n, isrec, shape = self.rowlen(v)
        xt = self.vars[v][1]
        a = {"op": "put", "v": v, "mode": "coll", "itype": NATIVE[xt], "rec": r, "form": "vara", "obs": self.obs}
        if isrec:
            a.update(start=[r] + [0] * (len(shape) - 1), count=[1] + shape[1:])
        else:
            a.update(start=[0] * len(shape), count=list(shape))
        a["vals"] = list(toks)
        if self.np > 1 and len(shape) > 0:
            # one rank writes, the others take part with a zero-length request (a scalar cannot be zero-length:
            # there every rank writes the same value)
            a["pr"] = {str(p): {"count": [0] * len(shape), "vals": []} for p in range(1, self.np)}
        return a

    def get_step(self, v, r):
        n, isrec, shape = self.rowlen(v)
        xt = self.vars[v][1]
        a = {"op": "get", "v": v, "mode": "coll", "itype": NATIVE[xt], "rec": r, "form": "vara", "n": n, "obs": []}
        if isrec:
            a.update(start=[r] + [0] * (len(shape) - 1), count=[1] + shape[1:])
        else:
            a.update(start=[0] * len(shape), count=list(shape))
        return a

    def read_all(self):
        out = []
        if not self.gets or self.mode != "data":
            return out
        for v in range(len(self.vars)):
            n, isrec, shape = self.rowlen(v)
            if n == 0:
                continue
            if isrec:
                for r in range(self.numrecs):
                    if self.rng.random() < 0.6:
                        out.append(self.get_step(v, r))
            elif self.rng.random() < 0.6:
                out.append(self.get_step(v, 0))
        return out

    def steps(self, hist, names):
        rng = self.rng
        self.tab = name_table(names, rng, self.family)
        cm = ["CLOBBER"] + ([FMT[self.fmt]] if FMT[self.fmt] else [])
        out = [{"op": "create", "path": "a.nc", "cmode": cm, "fmtno": self.fmt, "info": self.info or None, "obs": ["exists"]}]
        if any(c["c"] in ("copy_att_from", "copy_att_to") for c in hist):
            out += other_file_steps()        # kept in define mode: attributes can be renamed and received there
        for c in hist:
            k = c["c"]
            ok = c.get("rc") == "NC_NOERR"
            if k == "def_dim":
                raw, norm = self.N(c["name"])
                a = {"op": "def_dim", "name": raw, "norm": norm, "len": c["len"]}
                if ok:
                    self.dims.append([norm, c["len"]])
            elif k == "def_var":
                raw, norm = self.N(c["name"])
                a = {"op": "def_var", "name": raw, "norm": norm, "xtype": c["xtype"], "dims": c["dimids"]}
                if ok:
                    self.vars.append([norm, c["xtype"], c["dimids"]])
            elif k == "put_att":
                at = c["a"]
                raw, norm = self.N(at["name"])
                xt = at["xtype"]
                vals = attvals(xt, at["vals"], rng)
                a = {"op": "put_att", "v": c["t"], "name": raw, "norm": norm, "xtype": xt, "itype": NATIVE[xt], "vals": vals, "n": len(vals)}
            elif k == "del_att":
                raw, norm = self.N(c["name"])
                a = {"op": "del_att", "v": c["t"], "name": raw, "norm": norm}
            elif k in ("rename_att", "rename_var", "rename_dim"):
                rawn, normn = self.N(c["new"])
                newlen = len(normn.encode("utf-8"))
                if k == "rename_att":
                    rawo, normo = self.N(c["old"])
                    a = {"op": k, "v": c["t"], "name": rawo, "norm": normo, "new": rawn, "norm_new": normn,
                         "oldlen": len(normo.encode("utf-8")), "newlen": newlen}
                elif k == "rename_var":
                    v = c["v"]
                    oldlen = len(self.vars[v][0].encode("utf-8")) if 0 <= v < len(self.vars) else 0
                    a = {"op": k, "v": v, "new": rawn, "norm_new": normn, "oldlen": oldlen, "newlen": newlen}
                    if ok:
                        self.vars[v][0] = normn
                else:
                    d = c["d"]
                    oldlen = len(self.dims[d][0].encode("utf-8")) if 0 <= d < len(self.dims) else 0
                    a = {"op": k, "d": d, "new": rawn, "norm_new": normn, "oldlen": oldlen, "newlen": newlen}
                    if ok:
                        self.dims[d][0] = normn
            elif k == "copy_att_from":
                # attribute "x" of the second file (label 1; OTHER_ATTS) copied into this file under the name the model chose:
                # the source attribute is first renamed there (a call on the other file), then copied across
                at = c["a"]
                raw, norm = self.N(at["name"])
                src_t, src_name = OTHER_SRC[at["xtype"]]
                vals = attvals(at["xtype"], at["vals"], rng)
                cur = self.other_names.get(src_name, src_name)
                pre = []
                if cur != raw:
                    pre.append({"op": "rename_att", "f": 1, "v": src_t, "name": cur, "new": raw, "other": 1, "obs": []})
                    self.other_names[src_name] = raw
                pre.append({"op": "noop", "f": 1, "other": 1, "other_mark": 1, "obs": ["sha_other"]})
                out += pre
                a = {"op": "copy_att", "f": 1, "v": src_t, "name": raw, "norm": norm, "f2": 0, "v2": c["t2"],
                     "src": {"norm": norm, "xtype": at["xtype"], "n": len(vals), "vals": vals}, "obs": []}
                out.append(a)
                a = {"op": "noop", "f": 0, "other_must_stay": 1, "obs": self.obs + ["sha_other"]}
            elif k == "copy_att_to":
                raw, norm = self.N(c["name"])
                out.append({"op": "copy_att", "f": 0, "v": c["t1"], "name": raw, "norm": norm, "f2": 1, "v2": 2, "to_other": 1, "obs": []})
                a = {"op": "noop", "f": 0, "obs": self.obs}
            elif k == "copy_att":
                raw, norm = self.N(c["name"])
                a = {"op": "copy_att", "v": c["t1"], "name": raw, "norm": norm, "v2": c["t2"]}
            elif k == "set_fill":
                a = {"op": "set_fill", "fill": c["m"]}
            elif k == "def_var_fill":
                a = {"op": "def_var_fill", "v": c["v"], "nofill": 1 if c["nofill"] else 0}
            elif k == "enddef":
                if self.enddef_args and self.fresh:
                    a = dict(self.enddef_args, op="_enddef")
                else:
                    a = {"op": "enddef"}
                if ok:
                    if self.fresh:
                        a["want_h_align"], a["want_r_align"] = self.want()
                    self.mode = "data"
                    self.fresh = False
                    self.saved = None
            elif k == "redef":
                a = {"op": "redef"}
                if ok:
                    self.mode = "def"
                    self.saved = ([list(d) for d in self.dims], [list(v) for v in self.vars])
            elif k == "abort":
                a = {"op": "abort"}
                if self.saved and self.mode == "def":
                    self.dims, self.vars = self.saved
                self.mode = "closed"
                self.saved = None
            elif k == "close":
                a = {"op": "close"}
                self.mode = "closed"
                self.fresh = False
                self.saved = None
            elif k == "open":
                a = {"op": "open", "path": "a.nc", "omode": ["WRITE"], "info": self.info or None}
                self.mode = "data"
            elif k == "put":
                a = self.put_step(c["v"], c["r"], c["toks"])
                if self.rowlen(c["v"])[1]:
                    self.numrecs = max(self.numrecs, c["r"] + 1)
            elif k == "fill_rec":
                a = {"op": "fill_var_rec", "v": c["v"], "rec": c["r"]}
                if ok:
                    self.numrecs = max(self.numrecs, c["r"] + 1)
            else:
                raise ValueError(k)
            a.setdefault("obs", self.obs)
            out.append(a)
            if k in ("enddef", "open", "put", "fill_rec") and ok:
                out += self.read_all()
        return out
