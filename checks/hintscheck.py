"""Hints family (C10, last clause): the effective hint values the library reports back are the ones in force.
spec/Hints.tla (design check Hints_MC + random walks), spec/Trace_Hints.tla (trace validation): walks over create / open
with a requested hint set, variable definitions, enddef / ncmpi__enddef with alignment arguments, redef, close, and the two
observers inq_file_info (the report) and inq_layout (what is in force: header extent and variable offsets)."""
import json, random
import vlib

MODULE, CFG = "Trace_Hints.tla", "cfg/Trace_Hints.cfg"
FMTS = [None, "64BIT_OFFSET", "64BIT_DATA"]


def design_check():
    mc = vlib.tlc_check("Hints_MC.tla", "cfg/Hints_mc.cfg", workers=8)
    if not mc["ok"]:
        raise vlib.InfraError("Hints design check failed:\n" + mc["out"][-3000:])
    reach = vlib.tlc_check("Hints_MC.tla", "cfg/Hints_reach.cfg", workers=2, coverage=False)
    if reach["ok"]:
        raise vlib.InfraError("vacuity: Hints Reach1 state not reachable")
    return mc


def walks(n, seed):
    sim = vlib.tlc_emit("Hints_MC.tla", "cfg/Hints_sim.cfg", simulate=n, depth=14, seed=seed, workers=1, timeout=600)
    ws = [it["h"] for it in sim["items"]]
    if len(ws) < n // 2:
        raise vlib.InfraError("Hints simulation produced %d walks\n%s" % (len(ws), sim["out"][-2000:]))
    return ws


def info_of(q, rng):
    i = {}
    for k, key in (("h", "nc_header_align_size"), ("v", "nc_var_align_size"), ("r", "nc_record_align_size"), ("ibuf", "nc_ibuf_size"),
                   ("aggr", "nc_num_aggrs_per_node")):
        if q[k] > 0:
            i[key] = str(q[k])
    if q["hash"] > 0:
        for t in ("dim", "var", "gattr", "vattr"):
            i["nc_hash_size_" + t] = str(q["hash"])
    if q["swap"] != "none":
        i["nc_in_place_swap"] = q["swap"]
    # an unrelated key the library must ignore
    if rng.random() < 0.3:
        i["nc_no_such_hint"] = "17"
    return i or None


def steps_of(h, rng, fmt):
    st, nv, dims = [], 0, False
    for c in h:
        k = c["c"]
        if k == "create":
            st.append({"op": "create", "path": "h.nc", "cmode": ["CLOBBER"] + ([fmt] if fmt else []), "info": info_of(c["q"], rng), "q": c["q"]})
            nv, dims = 0, False
        elif k == "open":
            st.append({"op": "open", "path": "h.nc", "omode": ["WRITE"], "info": info_of(c["q"], rng), "q": c["q"]})
        elif k == "def_var":
            if not dims:
                st.append({"op": "def_dim", "name": "t", "len": 0, "setup": 1})
                st.append({"op": "def_dim", "name": "x", "len": rng.choice([1, 3, 5]), "setup": 1})
                dims = True
            st.append({"op": "def_var", "name": "v%d" % nv, "xtype": rng.choice(["byte", "short", "int", "double"]),
                       "dims": [1] if c["k"] == "f" else [0, 1], "k": c["k"]})
            nv += 1
        elif k == "enddef":
            a = c["a"]
            if a["v"] == 0 and a["r"] == 0 and rng.random() < 0.5:
                st.append({"op": "enddef"})
            else:
                st.append({"op": "_enddef", "h_minfree": 0, "v_align": a["v"], "v_minfree": 0, "r_align": a["r"]})
        elif k == "inq_info":
            st.append({"op": "inq_file_info"})
        elif k in ("redef", "close", "inq_layout"):
            st.append({"op": k})
        else:
            raise ValueError(k)
    if st and st[-1]["op"] != "close" and any(s["op"] in ("create", "open") for s in st):
        pass   # the driver closes what is left open
    return st


def run(pid, tier, seed, np_list=(1, 2)):
    q = tier == "quick"
    mc = design_check()
    ws = walks(150 if q else 1500, seed + 77)
    rng = random.Random(seed + 5)
    execs = []
    for n, h in enumerate(ws):
        execs.append({"x": "H%d" % n, "np": np_list[n % len(np_list)], "steps": steps_of(h, rng, FMTS[n % 3])})
    bld = vlib.build("dbg")
    to_ev = lambda r: [{"e": s["e"], "a": s["rk"][0].get("a", {}), "rc": s["rk"][0].get("rc", "NONE"), "out": s["rk"][0].get("out", {})}
                       for s in r["steps"]]
    res, acc, rej, states = vlib.run_validate(bld, execs, MODULE, CFG, par=12, to_events=to_ev, tag="hints")
    byx = {e["x"]: e for e in execs}
    violations = []
    if rej:
        again = [byx[x] for x, _, _ in rej]
        _, _, rej2, _ = vlib.run_validate(bld, again, MODULE, CFG, par=4, to_events=to_ev, tag="hints2")
        keep = {x for x, _, _ in rej2}
        for x, idx, tail in rej:
            if x not in keep:
                vlib.log("hints: rejection of %s not reproduced, dropped" % x)
                continue
            evs = res[x].get("events") or []
            ev = evs[idx] if 0 <= idx < len(evs) else {}
            why = ",".join(sorted({ln.split('"')[3] for ln in tail.splitlines()[0].split(";") if ln.count('"') >= 4}))
            rp = vlib.save_replay(pid, "hints_" + x, {"kind": "hints", "exec": byx[x], "rejected_index": idx, "event": ev, "tlc": tail})
            violations.append({"sig": "family=H;call=%s;rc=%s;why=%s;status=%s" % (ev.get("e"), ev.get("rc"), why, res[x]["status"]),
                               "replay": rp, "what": "event %d not explained by Hints: %s" % (idx, json.dumps(ev)[:500])})
    cov = {"evaluations": len(execs), "traces_validated_against_impl": len(acc), "trace_states": states, "rejected_first_pass": len(rej),
           "design_states": mc["stats"].get("distinct", 0), "design_transitions": mc["stats"].get("generated", 0),
           "action_coverage": {k: v[0] for k, v in (mc.get("coverage") or {}).items()}}
    return {"violations": violations, "coverage": cov, "execs": execs, "mc": mc}


def replay(pid, path):
    r = json.load(open(path))
    bld = vlib.build("dbg")
    to_ev = lambda rr: [{"e": s["e"], "a": s["rk"][0].get("a", {}), "rc": s["rk"][0].get("rc", "NONE"), "out": s["rk"][0].get("out", {})}
                        for s in rr["steps"]]
    res, acc, rej, _ = vlib.run_validate(bld, [r["exec"]], MODULE, CFG, par=1, to_events=to_ev, tag="hintsr")
    if rej:
        print(rej[0][2][:800])
        print("VIOLATION property=%s replay=%s" % (pid, path))
        return 1
    print("accepted")
    return 0
