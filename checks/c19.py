"""C19 -- memory safety on every program; malformed files fail cleanly.
Two parts, both on the sanitizer-instrumented build (variant san: AddressSanitizer + UndefinedBehaviorSanitizer, the
process exits on the first report):
 (1) the behaviours TLC generates for the other properties are replayed and validated against their specifications as
     usual -- a sanitizer report, a signal or a hang ends the trace in an ABNORMAL event no action explains;
 (2) spec/Robust.tla: opening ANY byte sequence fails with a netCDF error or yields self-consistent metadata (predicate
     Consistent), every later read returns, within a time and memory bound.  Inputs: every truncation point of the
     header and every single 4- / 8-byte header word replaced by each value of a dictionary of extremes, for seed files
     encoded from TLC-generated contents in all three formats, plus random multi-field corruptions.
What a TLA+ specification cannot express -- "no out-of-bounds access" -- is observed by the sanitizers; the specification
part says what must happen INSTEAD of undefined behaviour."""
import importlib, json, os, random, re, shutil, struct
import vlib, filecheck, c04
import sys
sys.path.insert(0, os.path.join(vlib.VERIF, "harness"))
import cdfdecode

PID = "C19"
MODULE, CFG = "Trace_Robust.tla", "cfg/Trace_Robust.cfg"
EXT4 = [0, 1, 2, 0x0A, 0x0B, 0x0C, 12, 0x7F, 0x100, 0xFFFF, 0x7FFFFFFB, 0x7FFFFFFF, 0x80000000, 0xFFFFFFFC, 0xFFFFFFFF]
EXT8 = [0, 1, 0x7FFFFFFF, 0x80000000, 0xFFFFFFFF, 0x100000000, 0x7FFFFFFFFFFFFFFF, 0x8000000000000000, 0xFFFFFFFFFFFFFFFF]
REPLAY_QUICK = ["c04", "c13", "c12"]
REPLAY_THOROUGH = ["c01", "c02", "c03", "c04", "c05", "c06", "c07", "c08", "c09", "c10", "c12", "c13", "c14", "c15", "c16", "c17", "c18"]


def san_summary(log):
    m = re.findall(r"SUMMARY: (\w+Sanitizer: [^\n]{0,160})", log or "")
    if m:
        return m[0]
    m = re.findall(r"(runtime error: [^\n]{0,160})", log or "")
    return m[0] if m else ""


def mutants(b, hsize, fmt, tier, rng):
    """[(kind, bytes)]: every truncation point of the header; every header word replaced by every extreme value"""
    out = []
    step = 1 if tier != "quick" else 3
    for n in range(0, hsize + 1, step):
        out.append(("trunc%d" % n, b[:n]))
    words = range(0, hsize - 3, 4)
    for k, off in enumerate(words):
        vals = EXT4 if tier != "quick" else [EXT4[(k + j) % len(EXT4)] for j in (0, 5, 11)] + [0xFFFFFFFF, 0x7FFFFFFF]
        for v in vals:
            w = struct.pack(">I", v)
            if b[off:off + 4] != w:
                out.append(("w4@%d=%x" % (off, v), b[:off] + w + b[off + 4:]))
        if fmt != 1 and off + 8 <= hsize:
            vals8 = EXT8 if tier != "quick" else [EXT8[(k + j) % len(EXT8)] for j in (0, 4)] + [0xFFFFFFFFFFFFFFFF]
            for v in vals8:
                w = struct.pack(">Q", v)
                if b[off:off + 8] != w:
                    out.append(("w8@%d=%x" % (off, v), b[:off] + w + b[off + 8:]))
    for r in range(40 if tier == "quick" else 600):
        bb = bytearray(b)
        for _ in range(rng.randint(2, 5)):
            off = 4 * rng.randrange(max(1, hsize // 4))
            bb[off:off + 4] = struct.pack(">I", rng.choice(EXT4))
        out.append(("multi%d" % r, bytes(bb)))
    return out


def malformed(tier, seed, rng, fdir):
    execs = []
    seeds = []
    for ci, cfg in enumerate(("cfg/File_state.cfg", "cfg/File_state2.cfg", "cfg/File_state5.cfg")):
        sim = vlib.tlc_emit("File_MC.tla", cfg, simulate=60 if tier == "quick" else 1200, depth=18, seed=seed + 40 + ci, workers=4, timeout=900)
        sts = [it["st"] for it in sim["items"] if len(it["st"]["vars"]) >= 2 and it["st"]["dims"] and
               (it["st"]["gatts"] or any(v["atts"] for v in it["st"]["vars"]))]
        sts.sort(key=lambda s: -(len(s["vars"]) + len(s["dims"]) + len(s["gatts"]) + s["numrecs"]))
        if not sts:
            raise vlib.InfraError("no seed content from %s" % cfg)
        for st in sts[:1 if tier == "quick" else 4]:
            st2, _ = c04.concretise(st, rng, "ascii")
            b, _ = cdfdecode.encode(c04.to_encoder(st2, rng))
            seeds.append((st2["fmt"], b, cdfdecode.decode_header(b)["xsz"]))
    n = 0
    for fmt, b, hs in seeds:
        for kind, bb in mutants(b, hs, fmt, tier, rng):
            p = os.path.join(fdir, "m%d.nc" % n)
            with open(p, "wb") as fh:
                fh.write(bb)
            execs.append({"x": "m%d" % n, "kind": "fmt%d:%s" % (fmt, kind), "steps": [
                {"op": "noop", "obs": ["rss"]},
                {"op": "open", "path": p, "omode": ["NOWRITE"], "obs": ["ms", "rss", "schema"]},
                {"op": "readall", "e_as": "get", "obs": ["ms"]},
                {"op": "close", "obs": []}]})
            n += 1
    return execs, len(seeds)


def clamp(x):
    """numbers TLC cannot hold (logged as "i:<n>") -> -1 if negative, 2^30 if huge: enough for the sign / range tests"""
    if isinstance(x, str) and x.startswith("i:"):
        x = int(x[2:])
    if isinstance(x, bool):
        return x
    if isinstance(x, int):
        return -1 if x < 0 else min(x, (1 << 30) - 1)
    if x is None:
        return -1
    if isinstance(x, list):
        return [clamp(y) for y in x]
    if isinstance(x, dict):
        return {k: (v if k == "vals" else clamp(v)) for k, v in x.items()}
    return x


def to_events(r):
    out = []
    for s in r["steps"]:
        e = s["rk"][0]
        name = {"readall": "get"}.get(s["e"], s["e"])
        obs = dict(e.get("obs", {}))
        if isinstance(obs.get("schema"), dict):
            s = obs["schema"]
            s2 = dict(s, byname=[])
            for key in ("dims", "unlim"):
                if key in s2:
                    s2[key] = clamp(s2[key])
            # an attribute whose name (as a C string) cannot be looked up again -- a name with embedded NUL / non-UTF-8 bytes in
            # the file -- is reported as a 3-element entry: the consistency predicate is about the attributes that can be named
            fa = lambda a: ([a[0], clamp(a[1]), clamp(a[2]), "-"] if a[1] != -1 else [a[0], -1, -1]) if isinstance(a, list) else a
            s2["gatts"] = [fa(a) for a in s.get("gatts", [])]
            s2["vars"] = [dict(v, type=clamp(v.get("type")), dimids=clamp(v.get("dimids", [])),
                               atts=[fa(a) for a in v.get("atts", [])])
                          for v in s.get("vars", [])]
            obs["schema"] = s2
        out.append({"e": name, "a": {}, "rc": e.get("rc", "NONE"), "out": e.get("out", {}), "obs": obs})
    return out


def run(tier, seed):
    rng = random.Random(seed)
    mc = vlib.tlc_check("Robust_MC.tla", "cfg/Robust_mc.cfg", workers=2)
    if not mc["ok"]:
        raise vlib.InfraError("Robust design check failed:\n" + mc["out"][-2000:])
    os.environ["VERIF_FORCE_SAN"] = "1"
    try:
        bld = vlib.build("dbg")
        if not os.path.basename(bld).startswith("san-"):
            raise vlib.InfraError("sanitizer build not selected: %s" % bld)
        violations = []
        # ---- part 2: malformed input
        fdir = os.path.join(vlib.SCRATCH, "c19files.%d" % os.getpid())
        shutil.rmtree(fdir, ignore_errors=True)
        os.makedirs(fdir)
        try:
            execs, nseeds = malformed(tier, seed, rng, fdir)
            kw = dict(to_events=to_events, per_launch=150, per_step_timeout=20)
            res, acc, rej, states = vlib.run_validate(bld, execs, MODULE, CFG, tag="c19-malformed", **kw)
            byx = {e["x"]: e for e in execs}
            for x, idx, tail, r2 in vlib.confirm(bld, execs, rej, MODULE, CFG, **kw):
                tr = res[x]["events"]
                first = tail.splitlines()[0] if tail else ""
                failed = ",".join(re.findall(r'"FAILED", "([^"]+)"', first))
                ev = tr[idx] if idx < len(tr) else {}
                # keep the offending input with the replay (the scratch directory is removed)
                keep = os.path.join(vlib.VERIF, "replays", PID)
                os.makedirs(keep, exist_ok=True)
                src = byx[x]["steps"][1]["path"]
                dst = os.path.join(keep, x + ".nc")
                shutil.copy(src, dst)
                ex2 = json.loads(json.dumps(byx[x]))
                ex2["steps"][1]["path"] = dst
                rp = vlib.save_replay(PID, x, {"exec": ex2, "part": "malformed", "trace": tr[max(0, idx - 1):idx + 1], "rejected_index": idx,
                                               "tlc": tail, "log": res[x]["log"][-3000:]})
                violations.append({"sig": "part=malformed;input=%s;call=%s;rc=%s;failed=%s;status=%s;san=%s" % (
                    byx[x]["kind"], ev.get("e"), ev.get("rc"), failed, res[x]["status"], san_summary(res[x]["log"])),
                    "replay": rp, "what": "input %s: event %d not explained by Robust (status %s): %s %s" % (
                        byx[x]["kind"], idx, res[x]["status"], json.dumps(ev)[:300], san_summary(res[x]["log"]))})
        finally:
            shutil.rmtree(fdir, ignore_errors=True)
        # ---- part 1: the other properties' generated behaviours on the sanitizer build
        parts = {}
        nrep, nval = 0, 0
        for name in (REPLAY_QUICK if tier == "quick" else REPLAY_THOROUGH):
            mod = importlib.import_module(name)
            r = mod.run("quick", seed)          # (the quick generators of each family; thorough covers every family)
            parts[name.upper()] = {k: r["coverage"].get(k) for k in ("evaluations", "traces_validated_against_impl", "rejected_first_pass")}
            nrep += r["coverage"].get("evaluations") or 0
            nval += r["coverage"].get("traces_validated_against_impl") or 0
            for v in r["violations"]:
                if "deviation=" in v["sig"]:
                    continue                     # recorded findings of the family, reported by its own check
                log = ""
                try:
                    log = json.load(open(v["replay"])).get("log", "")
                except Exception:
                    pass
                violations.append(dict(v, sig="part=replay;via=%s;%s;san=%s" % (name.upper(), v["sig"], san_summary(log))))
        cov = {"states": mc["stats"].get("distinct", 0), "transitions": mc["stats"].get("generated", 0),
               "traces_validated_against_impl": len(acc) + nval, "evaluations": len(execs) + nrep, "distinct_nontrivial": len(execs) + nrep,
               "malformed_inputs": len(execs), "seed_files": nseeds, "trace_states": states, "rejected_first_pass": len(rej),
               "replayed_families": parts,
               "samples": [e["kind"] for e in execs[:6]],
               "rule": "malformed inputs: for one (thorough: four) TLC-generated content per format, every (quick: every third) truncation "
                       "point of the header, every 4-byte header word replaced by each (quick: five) of 15 extreme values, every 8-byte "
                       "word of CDF-2/5 by each (quick: three) of 9, and random 2-5 field corruptions; each opened, inquired completely, "
                       "every variable read, closed; replay: the quick generators of " + ", ".join(REPLAY_QUICK if tier == "quick" else REPLAY_THOROUGH) +
                       " on the sanitizer build with their own trace validation",
               "exhaustive": tier == "thorough"}
        return {"level": "model_checking", "coverage": cov, "violations": violations,
                "assumptions": ["memory errors are those AddressSanitizer/UBSan can observe on the executed paths (gcc 12, -O1); the TLA+ "
                                "specification states the required outcome (error or consistent metadata, bounded time and memory), the "
                                "sanitizers observe the absence of undefined behaviour",
                                "bounds: 5 s per call, 512 MiB growth of the peak resident set while a (< 1 MiB) file is open"]}
    finally:
        os.environ.pop("VERIF_FORCE_SAN", None)


def replay(path):
    r = json.load(open(path))
    if r.get("part") != "malformed":
        via = re.findall(r"replays/(C\d+)/", path)
        print("replay this behaviour with the check of its family on the sanitizer build: VERIF_FORCE_SAN=1 bin/check <family> --replay %s" % path)
        return 2
    os.environ["VERIF_FORCE_SAN"] = "1"
    try:
        bld = vlib.build("dbg")
        res, acc, rej, _ = vlib.run_validate(bld, [r["exec"]], MODULE, CFG, par=1, to_events=to_events)
        if rej:
            print(rej[0][2][:800])
            print(res[r["exec"]["x"]]["log"][-1500:])
            print("VIOLATION property=%s replay=%s" % (PID, path))
            return 1
        print("accepted")
        return 0
    finally:
        os.environ.pop("VERIF_FORCE_SAN", None)
