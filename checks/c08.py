"""C08 -- collective calls match on all ranks: no deadlock, errors stay local.
spec/MP.tla (CollPut/CollGet with per-rank argument classes valid / zero-length / each kind of invalid argument,
safe mode on and off), Trace_MP (per-rank return codes, stored data, and the per-rank sequences of MPI collective
operations recorded by the PMPI shim, which must be pairwise identical; a rank that never returns is a rejected trace)."""
import random, json
import vlib, mpgen, c05

PID = "C08"


def disagree_scenarios():
    """safe mode: collective metadata calls whose arguments differ between the processes"""
    S = lambda **k: dict(k, setup=1)
    D = lambda pr, **k: dict(k, disagree=1, obs=["mpi"], pr={"1": dict(pr, disagree=1)})
    pre = [S(op="create", path="m.nc", cmode=["CLOBBER"]), S(op="def_dim", name="t", len=0), S(op="def_dim", name="x", len=4),
           S(op="def_var", name="v", xtype="int", dims=[0, 1]), S(op="put_att", v=-1, name="ga", itype="text", vals="abcd")]
    post = [{"op": "abort"}]
    sc = {
        "def_dim_len": [D({"len": 7}, op="def_dim", name="y", len=6)],
        "def_dim_name": [D({"name": "yy"}, op="def_dim", name="y", len=6)],
        "def_var_type": [D({"xtype": "short"}, op="def_var", name="w", xtype="int", dims=[1])],
        "def_var_dims": [D({"dims": [0, 1]}, op="def_var", name="w", xtype="int", dims=[1])],
        "put_att_val": [D({"vals": "wxyz"}, op="put_att", v=-1, name="gb", itype="text", vals="abcd")],
        "put_att_len": [D({"vals": "ab"}, op="put_att", v=-1, name="gb", itype="text", vals="abcd")],
        "rename_var": [D({"new": "v3"}, op="rename_var", v=0, new="v2")],
        "rename_dim": [D({"new": "x3"}, op="rename_dim", d=1, new="x2")],
        "del_att": [D({"name": "gz"}, op="del_att", v=-1, name="ga")],
        "enddef_args": [D({"v_align": 1024}, op="_enddef", v_align=512)],
        "set_fill": [D({"fill": "NOFILL"}, op="set_fill", fill="FILL")],
    }
    ex = []
    for name, steps in sc.items():
        ex.append({"x": "meta_" + name, "np": 2, "steps": pre + steps + post, "lenv": {"PNETCDF_SAFE_MODE": "1"}})
    ex.append({"x": "meta_create_cmode", "np": 2, "lenv": {"PNETCDF_SAFE_MODE": "1"},
               "steps": [D({"cmode": ["CLOBBER", "64BIT_DATA"]}, op="create", path="m.nc", cmode=["CLOBBER"]), {"op": "abort"}]})
    return ex


def run(tier, seed):
    rng = random.Random(seed)
    mcs = []
    for cfg in ("cfg/MP_mc.cfg", "cfg/MP_mc_safe.cfg"):
        mc = vlib.tlc_check("MP_MC.tla", cfg, workers=8)
        if not mc["ok"]:
            raise vlib.InfraError("MP design check (%s) failed:\n%s" % (cfg, mc["out"][-3000:]))
        mcs.append(mc)
    nwalk = 300 if tier == "quick" else 2500
    plain, safe = [], []
    variants = [(None, None), ({"nc_num_aggrs_per_node": "1"}, None), ({"romio_no_indep_rw": "true"}, None), ({"nc_num_aggrs_per_node": "2"}, None)]
    for np_, cfg in [(2, "cfg/MP_sim2_c08.cfg"), (3, "cfg/MP_sim3_c08.cfg")]:
        ws = c05.walks("MP_MC.tla", cfg, nwalk, 12, seed + 10 * np_)
        for n, h in enumerate(ws):
            tr = mpgen.Translator(rng, np_)
            info = variants[n % len(variants)][0]
            plain.append({"x": "n%dw%d" % (np_, n), "np": np_, "steps": mpgen.fixture(info=info) + tr.steps(h),
                          "lenv": {"VERIF_JITTER": "0.002"} if n % 5 == 0 else None})
    ws = c05.walks("MP_MC.tla", "cfg/MP_sim2_c08_safe.cfg", nwalk, 12, seed + 77)
    for n, h in enumerate(ws):
        tr = mpgen.Translator(rng, 2, safe=True)
        safe.append({"x": "s2w%d" % n, "np": 2, "steps": mpgen.fixture() + tr.steps(h), "lenv": {"PNETCDF_SAFE_MODE": "1"}})
    safe += disagree_scenarios()
    rule = ("random walks (TLC -simulate, depth 12) of the MP model: in every collective put/get each rank independently passes a valid "
            "request, a zero-length request or one kind of invalid argument (bad coordinates, edge, stride, negative count, bad variable "
            "id); wait_all with different request counts per rank; fill_var_rec, sync, redef, close; 2 and 3 ranks, safe mode off and on, "
            "intra-node aggregation and collective-header-I/O hints; plus 12 safe-mode scenarios of collective metadata calls with "
            "disagreeing arguments")
    r1 = c05.run_mp(PID, tier, seed, plain, "cfg/Trace_MP.cfg", mcs[0], rule)
    r2 = c05.run_mp(PID, tier, seed, safe, "cfg/Trace_MP_safe.cfg", mcs[1], rule)
    cov = r1["coverage"]
    for k in ("traces_validated_against_impl", "evaluations", "distinct_nontrivial", "trace_states", "rejected_first_pass"):
        cov[k] += r2["coverage"][k]
    cov["safe_mode_executions"] = len(safe)
    return {"level": "model_checking", "coverage": cov, "violations": r1["violations"] + r2["violations"],
            "assumptions": r1["assumptions"] + ["a call that has not returned after 15 s on some rank is a hang (calls take milliseconds)"]}


def replay(path):
    return c05.replay(path)
