"""Common flow of the checks decided by spec/File.tla (C07, C03, C06, C16)."""
import json, random
import vlib, filegen

MODULE, CFG = "Trace_File.tla", "cfg/Trace_File.cfg"
NAMES = ["a", "b", "c", "long1", "long2", "_FillValue"]


def rank0(res):
    """collective scripts on several ranks: the model is rank-agnostic; take rank 0's record of each step (all ranks
    must have returned the same code, otherwise the step carries a code no action of the model accepts)"""
    out = []
    for s in res["steps"]:
        rk = s["rk"]
        e = rk[0]
        rcs = {x.get("rc") for x in rk}
        rc = e.get("rc", "NONE") if len(rcs) == 1 else "MIXED:" + ",".join(sorted(str(x) for x in rcs))
        out.append({"e": s["e"], "a": {k: v for k, v in e.get("a", {}).items() if v is not None}, "rc": rc,
                    "out": e.get("out", {}), "obs": {k: v for k, v in e.get("obs", {}).items() if v is not None}})
    return out


def walks(cfg, nwalk, depth, seed):
    sim = vlib.tlc_emit("File_MC.tla", cfg, simulate=max(1, nwalk // 20 + 1), depth=depth + 2, seed=seed + 1, workers=4, timeout=900)
    seen, w = set(), []
    for it in sim["items"]:
        k = json.dumps(it["h"], sort_keys=True)
        if k not in seen:
            seen.add(k)
            w.append(it["h"])
    if len(w) < min(50, nwalk // 4):
        raise vlib.InfraError("simulation produced %d walks\n%s" % (len(w), sim["out"][-2000:]))
    random.Random(seed).shuffle(w)
    return w[:nwalk]


def design_check():
    mc = vlib.tlc_check("File_MC.tla", "cfg/File_mc.cfg", workers=8, timeout=3000)
    if not mc["ok"]:
        raise vlib.InfraError("File design check failed:\n" + mc["out"][-3000:])
    return mc


def sig_of(tr, idx, status, steps, tail):
    first = tail.splitlines()[0] if tail else ""
    failed = ",".join(__import__("re").findall(r'"FAILED", "([^"]+)"', first))
    if idx >= len(tr):
        nxt = steps[len(tr)] if len(tr) < len(steps) else {}
        return "call=%s;rc=ABNORMAL;status=%s" % (nxt.get("op"), status)
    ev = tr[idx]
    return "call=%s;rc=%s;failed=%s;v=%s;status=%s" % (ev.get("e"), ev.get("rc"), failed, ev.get("a", {}).get("v"), status)


def run(pid, tier, seed, execs, mc, rule, extra=None, assumptions=None, sink=None):
    bld = vlib.build("dbg")
    violations, nacc, states, nrej = [], 0, 0, 0
    bynp = {}
    for e in execs:
        bynp.setdefault(e.get("np", 1), []).append(e)
    for np_, lst in sorted(bynp.items()):
        kw = dict(np=np_, to_events=rank0 if np_ > 1 else vlib.flat1)
        res, acc, rej, st = vlib.run_validate(bld, lst, MODULE, CFG, tag="%s-np%d" % (pid.lower(), np_), **kw)
        nacc += len(acc)
        states += st
        nrej += len(rej)
        if sink is not None:
            sink.update({x: r.get("events") for x, r in res.items()})
        byx = {e["x"]: e for e in lst}
        for x, idx, tail, r2 in vlib.confirm(bld, lst, rej, MODULE, CFG, **kw):
            tr = res[x]["events"]
            rp = vlib.save_replay(pid, x, {"exec": byx[x], "trace": tr[max(0, idx - 1):idx + 1], "rejected_index": idx, "tlc": tail,
                                           "log": res[x]["log"][-2000:]})
            violations.append({"sig": sig_of(tr, idx, res[x]["status"], byx[x]["steps"], tail), "replay": rp,
                               "what": "event %d not explained by File (status %s) %s: %s" % (
                                   idx, res[x]["status"], tail.splitlines()[0] if tail else "", json.dumps(tr[idx] if idx < len(tr) else {})[:1000])})
    calls = set()
    for e in execs:
        for s in e["steps"]:
            calls.add(json.dumps({k: v for k, v in s.items() if k not in ("obs",)}, sort_keys=True, default=str))
    cov = {"states": mc["stats"].get("distinct", 0), "transitions": mc["stats"].get("generated", 0),
           "traces_validated_against_impl": nacc,
           "samples": [[{k: v for k, v in s.items() if k not in ("obs",)} for s in e["steps"]][:8] for e in execs[:2]],
           "evaluations": len(execs), "distinct_nontrivial": len(calls), "trace_states": states, "rejected_first_pass": nrej,
           "process_counts": sorted(bynp), "rule": rule, "exhaustive": False,
           "action_coverage": {k: v[0] for k, v in mc["coverage"].items() if v[0] > 0 and not k.startswith("line")}}
    cov.update(extra or {})
    return {"level": "model_checking", "coverage": cov, "violations": violations, "assumptions": assumptions or []}


def replay(pid, path):
    r = json.load(open(path))
    bld = vlib.build("dbg")
    ex = r["exec"]
    np_ = ex.get("np", 1)
    res, acc, rej, _ = vlib.run_validate(bld, [ex], MODULE, CFG, np=np_, par=1, to_events=rank0 if np_ > 1 else vlib.flat1)
    if rej:
        print(rej[0][2][:800])
        print("VIOLATION property=%s replay=%s" % (pid, path))
        return 1
    print("accepted")
    return 0
