"""C11 -- I/O failures are never silently dropped.
spec/Fault.tla (one armed failure: rank, transfer position, MPI error class; the step in which it fires must report an
error on that rank), Trace_Fault (per step and rank: transfers issued and "fired" flag from the PMPI shim, return code
and wait statuses).  Enumeration: every MPI-IO data-transfer position observed in a fault-free run of each program x
rank x error class."""
import random, json
import vlib

PID = "C11"
MODULE, CFG = "Trace_Fault.tla", "cfg/Trace_Fault.cfg"
CLASSES_Q = ["MPI_ERR_IO", "MPI_ERR_NO_SPACE"]
CLASSES_T = ["MPI_ERR_IO", "MPI_ERR_NO_SPACE", "MPI_ERR_QUOTA", "MPI_ERR_ACCESS", "MPI_ERR_READ_ONLY", "MPI_ERR_FILE"]
O = ["io"]


def S(**k):
    k["obs"] = O
    return k


def programs(np_):
    W = 4
    base = [S(op="create", path="a.nc", cmode=["CLOBBER"]), S(op="def_dim", name="t", len=0), S(op="def_dim", name="x", len=W),
            S(op="def_dim", name="y", len=6), S(op="def_var", name="F", xtype="int", dims=[2]),
            S(op="def_var", name="R", xtype="int", dims=[0, 1]), S(op="def_var", name="G", xtype="short", dims=[0, 1]),
            S(op="def_var_fill", v=0, nofill=0), S(op="def_var_fill", v=1, nofill=0)]
    wr = lambda v, rec, vals, **k: S(op="put", v=v, form="vara", mode="coll", itype="int", start=[rec, 0], count=[1, W], vals=vals, **k)
    zero_others = {str(p): {"count": [0, W], "vals": []} for p in range(1, np_)}
    P = {}
    P["create_fill_enddef"] = base + [S(op="enddef"), S(op="close")]
    P["coll_put_get"] = base + [S(op="enddef"),
                                S(op="put", v=0, form="vara", mode="coll", itype="int", start=[0], count=[6], vals=[1, 2, 3, 4, 5, 6],
                                  pr={str(p): {"count": [0], "vals": []} for p in range(1, np_)}),
                                wr(1, 0, [1, 2, 3, 4], pr=zero_others), wr(1, 2, [5, 6, 7, 8], pr=zero_others),
                                S(op="get", v=1, form="vara", mode="coll", itype="int", start=[0, 0], count=[3, W], n=3 * W),
                                S(op="get", v=0, form="vara", mode="coll", itype="int", start=[0], count=[6], n=6), S(op="close")]
    P["indep_put_get_sync"] = base + [S(op="enddef"), S(op="begin_indep"),
                                      S(op="put", v=1, form="vara", mode="indep", itype="int", start=[1, 0], count=[1, W], vals=[1, 2, 3, 4], ranks=[0]),
                                      S(op="get", v=0, form="vara", mode="indep", itype="int", start=[0], count=[6], n=6),
                                      S(op="sync_numrecs"), S(op="sync"), S(op="end_indep"), S(op="close")]
    P["nonblocking_mixed"] = base + [S(op="enddef"), wr(1, 0, [9, 9, 9, 9], pr=zero_others),
                                     S(op="put", kind="i", req="a", v=1, form="vara", itype="int", start=[1, 0], count=[1, W], vals=[1, 2, 3, 4]) if np_ == 1 else
                                     S(op="put", kind="i", req="a", v=1, form="vara", itype="int", start=[1, 0], count=[1, W], vals=[1, 2, 3, 4], ranks=[0]),
                                     S(op="put", kind="i", req="b", v=0, form="vara", itype="int", start=[0], count=[3], vals=[1, 2, 3], ranks=[0]),
                                     S(op="get", kind="i", req="g", v=1, form="vara", itype="int", start=[0, 0], count=[1, W], n=W),
                                     S(op="wait", mode="coll", special="ALL"), S(op="close")]
    P["bput_wait"] = base + [S(op="enddef"), S(op="buffer_attach", size=256),
                             S(op="put", kind="b", req="a", v=1, form="vara", itype="int", start=[0, 0], count=[1, W], vals=[1, 2, 3, 4], ranks=[0]),
                             S(op="put", kind="b", req="b", v=2, form="vara", itype="int", start=[0, 0], count=[1, W], vals=[5, 6, 7, 8], ranks=[0]),
                             S(op="wait", mode="coll", special="ALL"), S(op="buffer_detach"), S(op="close")]
    P["redef_grow"] = base + [S(op="enddef"), wr(1, 0, [1, 2, 3, 4], pr=zero_others), wr(1, 1, [5, 6, 7, 8], pr=zero_others),
                              S(op="redef"), S(op="put_att", v=-1, name="big", itype="text", vals="z" * 700),
                              S(op="def_var", name="N", xtype="double", dims=[0, 1]), S(op="enddef"), S(op="close")]
    P["datamode_header"] = base + [S(op="put_att", v=-1, name="ga", itype="text", vals="abcd"), S(op="enddef"),
                                   S(op="put_att", v=-1, name="ga", itype="text", vals="wxyz"), S(op="rename_var", v=0, new="E"), S(op="close")]
    P["fill_var_rec"] = base + [S(op="enddef"), S(op="fill_var_rec", v=1, rec=0), S(op="fill_var_rec", v=1, rec=2), S(op="close")]
    P["open_read"] = [dict(s, setup=1) for s in base] + [S(op="enddef", setup=1), dict(wr(1, 0, [1, 2, 3, 4], pr=zero_others), setup=1),
                                                        S(op="close", setup=1), S(op="open", path="a.nc", omode=["NOWRITE"]),
                                                        S(op="get", v=1, form="vara", mode="coll", itype="int", start=[0, 0], count=[1, W], n=W),
                                                        S(op="close")]
    # independent transfers that go through the library's packing buffer: one wait completing several pending requests whose
    # buffers are not adjacent (aggregated buffer type is hindexed), and flexible calls with a non-contiguous buffer type on
    # a variable that needs neither conversion nor byte swap
    r0 = {"ranks": [0]}
    P["indep_nb_two"] = base + [S(op="enddef"), S(op="begin_indep"),
                                S(op="put", kind="i", req="a", v=1, form="vara", itype="int", start=[0, 0], count=[1, W], vals=[1, 2, 3, 4], **r0),
                                S(op="put", kind="i", req="b", v=0, form="vara", itype="int", start=[1], count=[3], vals=[5, 6, 7], **r0),
                                S(op="wait", mode="indep", reqs=["a", "b"], **r0),
                                S(op="get", kind="i", req="g", v=1, form="vara", itype="int", start=[0, 0], count=[1, W], n=W, **r0),
                                S(op="get", kind="i", req="h", v=0, form="vara", itype="int", start=[0], count=[2], n=2, **r0),
                                S(op="wait", mode="indep", reqs=["g", "h"], **r0),
                                S(op="end_indep"), S(op="close")]
    basec = base + [S(op="def_var", name="C", xtype="char", dims=[2])]
    P["indep_flex_noncontig"] = basec + [S(op="enddef"), S(op="begin_indep"),
                                         S(op="put", v=3, form="vara", mode="indep", itype="text", flex={"layout": "vector"}, start=[1], count=[4], vals=[65, 66, 67, 68], **r0),
                                         S(op="get", v=3, form="vara", mode="indep", itype="text", flex={"layout": "vector"}, start=[0], count=[5], n=5, **r0),
                                         S(op="end_indep"), S(op="close")]
    return P


def sig_of(ev_steps, idx, tail, status, prog):
    first = tail.splitlines()[0] if tail else ""
    if idx >= len(ev_steps):
        return "prog=%s;status=%s;rc=ABNORMAL" % (prog, status)
    ev = ev_steps[idx]
    sites = []
    for r in ev.get("rk", []):
        for m in r.get("obs", {}).get("mpi", []) or []:
            if m[4]:
                sites.append(m[3] + ":" + m[0])
    return "prog=%s;call=%s;sites=%s;rcs=%s;status=%s" % (prog, ev.get("e"), "|".join(sorted(set(sites))), ",".join(r.get("rc", "?") for r in ev.get("rk", [])), status)


def run(tier, seed):
    rng = random.Random(seed)
    mc = vlib.tlc_check("Fault_MC.tla", "cfg/Fault_mc.cfg", workers=2)
    if not mc["ok"]:
        raise vlib.InfraError("Fault design check failed:\n" + mc["out"][-2000:])
    bld = vlib.build("dbg")
    classes = CLASSES_Q if tier == "quick" else CLASSES_T
    violations, nacc, states, nexec, sites_seen = [], 0, 0, 0, set()
    samples = []
    for np_ in ([2] if tier == "quick" else [1, 2, 3]):
        progs = programs(np_)
        # fault-free runs: how many transfers does each rank issue
        base = [{"x": "base_" + n, "np": np_, "steps": [{"op": "shim", "kth": -1, "cls": 0, "rank": -1}] + [dict(s, obs=["io", "mpi"]) for s in st]}
                for n, st in progs.items()]
        res = vlib.run_execs(bld, base, np=np_, shim=True, tag="c11base")
        execs = []
        for n, st in progs.items():
            r = res["base_" + n]
            if r["status"] != "ok":
                raise vlib.InfraError("fault-free run of %s failed: %s" % (n, r["log"][-800:]))
            counts = {}
            for s in r["steps"]:
                for e in s["rk"]:
                    io = e.get("obs", {}).get("io")
                    if io:
                        counts[e["r"]] = max(counts.get(e["r"], 0), io["count"])
                    for m in e.get("obs", {}).get("mpi", []) or []:
                        if m[4]:
                            sites_seen.add(m[3] + ":" + m[0])
            for rank in (range(np_) if tier != "quick" else [0, min(1, np_ - 1)]):
                for k in range(1, counts.get(rank, 0) + 1):
                    for cls in classes:
                        execs.append({"x": "%s_n%d_r%d_k%d_%s" % (n, np_, rank, k, cls[8:]), "np": np_, "prog": n,
                                      "steps": [{"op": "shim", "kth": k, "cls": cls, "rank": rank, "stop": True}] + [dict(s, obs=["io", "mpi"]) for s in st]})
        nexec += len(execs)
        samples += [e["x"] for e in execs[:3]]
        kw = dict(np=np_, shim=True, header=(lambda evs, n=np_: {"np": n}), to_events=vlib.flatn, per_step_timeout=12, per_launch=40)
        r_, acc, rej, st_ = vlib.run_validate(bld, execs, MODULE, CFG, tag="c11-np%d" % np_, **kw)
        nacc += len(acc)
        states += st_
        byx = {e["x"]: e for e in execs}
        for x, idx, tail, r2 in vlib.confirm(bld, execs, rej, MODULE, CFG, **kw):
            tr = r_[x]["events"]
            rp = vlib.save_replay(PID, x, {"exec": byx[x], "trace": tr[max(0, idx - 1):idx + 1], "rejected_index": idx, "tlc": tail, "log": r_[x]["log"][-1500:]})
            violations.append({"sig": sig_of(tr, idx, tail, r_[x]["status"], byx[x]["prog"]) + ";cls=" + x.split("_")[-1], "replay": rp,
                               "what": "%s: step %d (status %s) %s: %s" % (x, idx, r_[x]["status"], tail.splitlines()[0] if tail else "",
                                                                        json.dumps(tr[idx] if idx < len(tr) else {})[:700])})
    cov = {"evaluations": nexec, "distinct_nontrivial": nexec, "samples": samples, "states": mc["stats"].get("distinct", 0),
           "transitions": mc["stats"].get("generated", 0), "traces_validated_against_impl": nacc, "trace_states": states,
           "io_sites_exercised": sorted(sites_seen), "classes": classes,
           "rule": "programs (create+fill+enddef, collective put/get, independent put/get+sync, iput/iget mixed wait_all, bput, redef with "
                   "data movement, data-mode header rewrite, fill_var_rec, open+read) x every MPI-IO data-transfer position of the "
                   "fault-free run x rank x MPI error class; an execution is distinct by (program, ranks, rank, position, class)",
           "exhaustive": tier == "thorough"}
    return {"level": "fault_enumeration", "coverage": cov, "violations": violations,
            "assumptions": ["the PMPI shim performs the failing transfer with count 0 (collective transfers still match) and returns the error class as the MPI error code",
                            "a step that has not returned after 12 s is a hang"]}


def replay(path):
    r = json.load(open(path))
    bld = vlib.build("dbg")
    ex = r["exec"]
    res, acc, rej, _ = vlib.run_validate(bld, [ex], MODULE, CFG, np=ex["np"], shim=True, par=1, header=lambda evs: {"np": ex["np"]}, to_events=vlib.flatn)
    if rej:
        print(rej[0][2][:800])
        print("VIOLATION property=%s replay=%s" % (PID, path))
        return 1
    print("accepted")
    return 0
