"""Common flow of the checks decided by spec/Data.tla (C01, C02, C13, C15)."""
import json, random
import vlib, datagen

MODULE, CFG = "Trace_Data.tla", "cfg/Trace_Data.cfg"
# the same trace spec with the named deviations of the implementation (known findings) switched on
CFG_DEV = "cfg/Trace_Data_devAB.cfg"
DEVIATION_OF = {"abuf": "TailOnly", "buffers": "OverlapReadLoses", "post": "TailOnly", "attach/detach": "TailOnly"}


def sig_of(tr, idx, status, steps):
    if idx >= len(tr):
        nxt = [s for s in steps][len(tr)] if len(tr) < len(steps) else {}
        return "call=%s;form=%s;kind=%s;rc=ABNORMAL;status=%s" % (nxt.get("op"), nxt.get("form"), nxt.get("kind"), status)
    ev = tr[idx]
    a = ev.get("a", {})
    o = ev.get("obs", {})
    return "call=%s;form=%s;kind=%s;itype=%s;flex=%s;mode=%s;reqs=%s;rc=%s;nreqs=%s;abuf=%s;numrecs=%s;status=%s" % (
        ev.get("e"), a.get("form"), a.get("kind"), a.get("itype"), (a.get("flex") or {}).get("layout"), a.get("mode"),
        "ALL" if isinstance(a.get("reqs"), str) else len(a.get("reqs", [])) if "reqs" in a else None,
        ev.get("rc"), o.get("nreqs"), json.dumps(o.get("abuf")), o.get("numrecs"), status)


def design_check(tier, mc="cfg/Data_mc.cfg", mc5="cfg/Data_mc5.cfg"):
    r = vlib.tlc_check("Data_MC.tla", mc, workers=8, timeout=3000)
    if not r["ok"]:
        raise vlib.InfraError("Data design check failed:\n" + r["out"][-3000:])
    if vlib.tlc_check("Data_MC.tla", "cfg/Data_reach.cfg", workers=4, coverage=False)["ok"]:
        raise vlib.InfraError("vacuity: ReachBputPending not reachable")
    return r


def walks(nwalk, depth, seed, cfg="cfg/Data_sim.cfg", module="Data_MC.tla"):
    env = None
    sim = vlib.tlc_emit(module, cfg, simulate=max(1, nwalk // 4 + 1), depth=depth + 2, seed=seed + 1, workers=4, timeout=900)
    seen, w = set(), []
    for it in sim["items"]:
        k = json.dumps(it["h"], sort_keys=True)
        if k not in seen:
            seen.add(k)
            w.append(it["h"])
    w = w[:nwalk]
    if len(w) < nwalk // 4:
        raise vlib.InfraError("simulation produced %d walks\n%s" % (len(w), sim["out"][-2000:]))
    return w


def run(pid, tier, seed, execs, mc, np=1, header=None, extra_cov=None, assumptions=None, env=None, level="model_checking", to_events=None, sink=None):
    bld = vlib.build("dbg")
    kw = dict(np=np, header=header or datagen.header_for(), env=env, to_events=to_events or vlib.flat1)
    # pass 1: everything the specification, with the recorded deviations switched on, cannot explain is a violation
    res, acc, rej, states = vlib.run_validate(bld, execs, MODULE, CFG_DEV, tag=pid.lower(), **kw)
    if sink is not None:
        sink.update({x: r.get("events") for x, r in res.items()})
    violations = []
    byx = {e["x"]: e for e in execs}
    # pass 2: the accepted traces against the property itself; whatever is rejected now is explained by a
    # recorded deviation (it was accepted with the deviations on) and is reported as that known finding
    accset = set(acc)
    # (executions written to exercise one recorded finding are validated on their own so that each finding is seen)
    special = [x for x in byx if x in accset and byx[x].get("special")]
    a2, r2_, s2 = vlib.validate_traces([(x, res[x]["events"]) for x in byx if x in accset and not byx[x].get("special")], MODULE, CFG,
                                       header=kw["header"], tag=pid.lower() + "-faithful", max_rejects=8)
    for x in special:
        a3, r3, s3 = vlib.validate_traces([(x, res[x]["events"])], MODULE, CFG, header=kw["header"], tag=pid.lower() + "-faithful-" + x, max_rejects=1)
        r2_ += r3
        s2 += s3
    states += s2
    dev_seen = {}
    for x, idx, tail in r2_:
        first = tail.splitlines()[0] if tail else ""
        names = [DEVIATION_OF.get(n, "unclassified:" + n) for n in __import__("re").findall(r'"FAILED", "([^"]+)"', first)] or ["unclassified"]
        for nm in names:
            if nm not in dev_seen:
                dev_seen[nm] = x
                rp = vlib.save_replay(pid, "dev_" + x, {"exec": byx[x], "rejected_index": idx, "tlc": tail, "deviation": nm})
                violations.append({"sig": "deviation=%s" % nm, "replay": rp,
                                   "what": "accepted only with the named deviation %s: %s" % (nm, first)})
    for x, idx, tail, r2 in vlib.confirm(bld, execs, rej, MODULE, CFG_DEV, **kw):
        tr = res[x]["events"]
        rp = vlib.save_replay(pid, x, {"exec": byx[x], "trace": tr[max(0, idx - 2):idx + 1], "rejected_index": idx,
                                       "tlc": tail, "log": res[x]["log"][-3000:]})
        violations.append({"sig": sig_of(tr, idx, res[x]["status"], byx[x]["steps"]), "replay": rp,
                           "what": "event %d not explained by Data (status %s) %s: %s" % (
                               idx, res[x]["status"], tail.splitlines()[0] if tail else "", json.dumps(tr[idx] if idx < len(tr) else {})[:900])})
    calls = set()
    for e in execs:
        for s in e["steps"]:
            if "setup" not in s:
                calls.add(json.dumps({k: v for k, v in s.items() if k not in ("obs", "vals", "req")}, sort_keys=True))
    cov = {"states": mc["stats"].get("distinct", 0), "transitions": mc["stats"].get("generated", 0),
           "traces_validated_against_impl": len(acc),
           "samples": [[{k: v for k, v in s.items() if k not in ("obs", "setup")} for s in e["steps"] if "setup" not in s][:8] for e in execs[:2]],
           "evaluations": len(execs), "distinct_nontrivial": len(calls),
           "trace_states": states, "rejected_first_pass": len(rej), "faithful_pass_rejections_explained_by_deviation": len(r2_),
           "action_coverage": {k: v[0] for k, v in mc["coverage"].items() if v[0] > 0 and not k.startswith("line")}}
    cov.update(extra_cov or {})
    return {"level": level, "coverage": cov, "violations": violations, "assumptions": assumptions or []}


def replay(pid, path, header=None):
    r = json.load(open(path))
    bld = vlib.build("dbg")
    cfg = CFG if "deviation" in r else CFG_DEV
    res, acc, rej, _ = vlib.run_validate(bld, [r["exec"]], MODULE, cfg, np=1, par=1, header=header or datagen.header_for())
    if rej:
        x, idx, tail = rej[0]
        tr = vlib.flat1(res[x])
        print("rejected at event", idx, json.dumps(tr[idx] if idx < len(tr) else {})[:2000])
        print(tail[:600])
        print("VIOLATION property=%s replay=%s" % (pid, path))
        return 1
    print("accepted")
    return 0
