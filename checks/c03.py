"""C03 -- files written conform to the classic CDF-1/2/5 format specification.
spec/File.tla + Trace_File: at every point where the file must be up to date (after enddef, data-mode put_att/rename,
every write, close) an independent decoder written from the format grammar recovers the schema, record count and data
the model holds; the layout rules (definition order, 4-byte alignment, no overlap, header before data, requested
alignments, single-record-variable packing) hold on the DECODED offsets; the library's own reports (header size/extent,
variable offsets, record size) equal what is in the file; a clobbered predecessor leaves nothing behind."""
import random
import vlib, filegen, filecheck

PID = "C03"


def clobber_scenarios(rng):
    """create over a larger predecessor: the new file must be explained by the new content alone"""
    ex = []
    for i, fmt in enumerate([1, 2, 5]):
        big = [{"op": "create", "path": "a.nc", "cmode": ["CLOBBER"], "fmtno": 1, "obs": ["exists"]},
               {"op": "def_dim", "name": "n", "norm": "n", "len": 3000},
               {"op": "def_var", "name": "big", "norm": "big", "xtype": "int", "dims": [0]},
               {"op": "put_att", "v": -1, "name": "junk", "norm": "junk", "xtype": "char", "itype": "text", "vals": "x" * 600, "n": 600},
               {"op": "enddef", "obs": ["disk"]},
               {"op": "put", "v": 0, "form": "vara", "mode": "coll", "itype": "int", "rec": 0, "start": [0], "count": [3000], "vals": [77] * 3000, "obs": []},
               {"op": "close", "obs": ["disk", "exists"]}]
        cm = ["CLOBBER"] + ([filegen.FMT[fmt]] if filegen.FMT[fmt] else [])
        small = [{"op": "create", "path": "a.nc", "cmode": cm, "fmtno": fmt, "obs": ["exists"]},
                 {"op": "def_dim", "name": "m", "norm": "m", "len": 2},
                 {"op": "def_var", "name": "s", "norm": "s", "xtype": "short", "dims": [0]},
                 {"op": "enddef", "obs": filegen.OBS},
                 {"op": "put", "v": 0, "form": "vara", "mode": "coll", "itype": "short", "rec": 0, "start": [0], "count": [2], "vals": [5, 6], "obs": filegen.OBS},
                 {"op": "close", "obs": ["disk", "exists", "filesize"]}]
        ex.append({"x": "clobber%d" % i, "steps": big + small})
        # a file without variables is cut back to its header at close
        ex.append({"x": "novars%d" % i, "steps": big + [
            {"op": "create", "path": "a.nc", "cmode": cm, "fmtno": fmt, "obs": ["exists"]},
            {"op": "put_att", "v": -1, "name": "t", "norm": "t", "xtype": "char", "itype": "text", "vals": "hi", "n": 2},
            {"op": "close", "obs": ["disk", "exists", "filesize"]}]})
    return ex


def run(tier, seed):
    rng = random.Random(seed)
    mc = filecheck.design_check()
    n = 400 if tier == "quick" else 6000
    execs = []
    i = 0
    aligns = [None, {"nc_header_align_size": "1024"}, {"nc_var_align_size": "64"}, {"nc_record_align_size": "512"},
              {"nc_header_align_size": "6", "nc_record_align_size": "10"}, {"nc_header_align_size": "4096", "nc_record_align_size": "4"}]
    args = [None, {"h_minfree": 0, "v_align": 256, "v_minfree": 0, "r_align": 128}, {"h_minfree": 100, "v_align": 0, "v_minfree": 3, "r_align": 0}]
    for cfg, fmt in [("cfg/File_sim_ok.cfg", 1), ("cfg/File_sim_ok2.cfg", 2), ("cfg/File_sim_ok5.cfg", 5), ("cfg/File_sim.cfg", 1)]:
        for h in filecheck.walks(cfg, n // 3, 16, seed + 100 + i):
            info = aligns[i % len(aligns)]
            ea = args[(i // len(aligns)) % len(args)] if info is None else None
            np_ = [1, 1, 2][i % 3] if tier == "quick" else [1, 2, 3, 4][i % 4]
            tr = filegen.Translator(rng, fmt=fmt, family=["ascii", "utf8"][i % 2], info=info, enddef_args=ea, np=np_)
            execs.append({"x": "w%d" % i, "np": np_, "steps": tr.steps(h, filecheck.NAMES)})
            i += 1
    execs += clobber_scenarios(rng)
    # the file must also be "up to date" after a redefinition that moved or kept data sections: the deterministic growth
    # scenarios of C06 (header growth absorbed by free space or not, record size change), decoded and compared here too
    import c06
    g = c06.grow_scenarios(random.Random(seed + 7), "thorough")
    g = [e for e in g if e["np"] <= 2]
    if tier == "quick":
        g = [e for k, e in enumerate(g) if k % 4 == seed % 4 or (e["gap"] and e["delta"] == "att_mid_recvar")]
    execs += g
    return filecheck.run(PID, tier, seed, execs, mc,
                         "random walks of File_MC replayed under formats CDF-1/2/5, alignment hints (header/variable/record alignment, "
                         "incl. values that are not multiples of 4) or ncmpi__enddef arguments (alignments, minfree), UTF-8 names, on "
                         "1-2 (thorough: 1-4) processes; after every call in data mode and after close the file is decoded "
                         "independently and compared with the model; plus clobber / no-variable truncation scenarios",
                         assumptions=["cdfdecode.py is written from the format grammar alone (no code shared with the library)"])


def replay(path):
    return filecheck.replay(PID, path)
