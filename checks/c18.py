"""C18 -- format size limits are enforced and 64-bit offsets are addressed correctly.
spec/Limits.tla (exact wide arithmetic, module Wide): the per-format size rules decide the return code of def_dim and of
enddef for every schema of 1..3 variables (fixed / record) whose sizes are taken from the classes just below / at / just
above each threshold (Limits_MC generates them all and checks the rules' consistency); Trace_Limits validates the codes,
the layout reported after an accepted enddef, and -- for elements on both sides of 2^31 and 2^32 bytes / elements, first
and last elements -- that the non-zero byte runs of the sparse file are exactly the elements written, at the offsets the
specification computes, and that every read returns the bytes written there (zeros where nothing was written)."""
import json, random, struct
import vlib

PID = "C18"
MODULE, CFG = "Trace_Limits.tla", "cfg/Trace_Limits.cfg"
FMT = {1: None, 2: "64BIT_OFFSET", 5: "64BIT_DATA"}
XT = {1: ("byte", "schar"), 2: ("short", "short"), 4: ("int", "int"), 8: ("double", "double")}
LIMIT = 1 << 41          # no element beyond 2 TiB is touched (sparse file, but the file system has its own limits)


def wide(n):
    return [(n >> (20 * k)) & 0xFFFFF for k in range(4)]


def unwide(w):
    return sum(int(x) << (20 * k) for k, x in enumerate(w))


def value(xsz, k):
    """element number k: xsz non-zero bytes (as they lie in the file, big-endian) and the number that encodes to them"""
    b = bytes([0x41 + k % 50] + [0x52 + d for d in range(xsz - 1)])
    if xsz == 1:
        v = struct.unpack(">b", b)[0]
    elif xsz == 2:
        v = struct.unpack(">h", b)[0]
    elif xsz == 4:
        v = struct.unpack(">i", b)[0]
    else:
        v = struct.unpack(">d", b)[0]
    return b.hex(), v


def define_steps(fmt, vs):
    cm = ["CLOBBER"] + ([FMT[fmt]] if FMT[fmt] else [])
    st = [{"op": "create", "path": "a.nc", "cmode": cm, "fmtno": fmt, "obs": []}]
    ndim = 0
    tdim = None
    if any(v["isrec"] for v in vs):
        st.append({"op": "def_dim", "name": "t", "len": 0, "obs": []})
        tdim = ndim
        ndim += 1
    for k, v in enumerate(vs):
        L = unwide(v["L"])
        dims = [tdim] if v["isrec"] else []
        if v["n0"] > 1:
            st.append({"op": "def_dim", "name": "a%d" % k, "len": v["n0"], "obs": []})
            dims.append(ndim)
            ndim += 1
        st.append({"op": "def_dim", "name": "l%d" % k, "len": L, "obs": []})
        dims.append(ndim)
        ndim += 1
        st.append({"op": "def_var", "name": "v%d" % k, "xtype": XT[v["xsz"]][0], "dims": dims, "obs": [],
                   "isrec": v["isrec"], "xsz": v["xsz"], "n0": v["n0"], "L": v["L"]})
    st.append({"op": "enddef", "obs": ["wlayout"]})
    return st


def positions(v, begin, recsize, rng):
    """(rec, i, j) of the elements to touch: first, last, and the neighbours of every 2^31 / 2^32 threshold in bytes and
    in elements that falls inside the variable (inputs only: the expected offsets are computed by the specification)"""
    L, xsz, n0 = unwide(v["L"]), v["xsz"], v["n0"]
    out = set()

    def off(rec, i, j):
        return begin + (rec * recsize if v["isrec"] else 0) + (i * L + j) * xsz
    for rec in ([0, 1] if v["isrec"] else [0]):
        cand = [(0, 0), (n0 - 1, L - 1), (n0 - 1, 0), (0, L - 1)]
        for T in (1 << 31, 1 << 32):
            for i in sorted({0, n0 - 1, min(1, n0 - 1)}):
                base = off(rec, i, 0)
                q = -((base - T) // xsz)          # first j whose offset is >= T
                cand += [(i, q - 1), (i, q), (i, q + 1)]
            for j in (T - 1, T):
                cand += [(0, j), (n0 - 1, j)]
        for (i, j) in cand:
            if 0 <= i < n0 and 0 <= j < L and off(rec, i, j) + xsz <= LIMIT:
                out.add((rec, i, j))
    out = sorted(out)
    rng.shuffle(out)
    return out[:14]


def hexb(hx):
    return [hx[2 * q:2 * q + 2] for q in range(len(hx) // 2)]


def data_steps(vs, offs, recsize, rng):
    st = []
    k = 0
    written = {}          # (vi, rec, i, j) of every element written

    def off(vi, rec, i, j):
        v = vs[vi]
        return offs[vi] + (rec * recsize if v["isrec"] else 0) + (i * unwide(v["L"]) + j) * v["xsz"]

    def put(vi, rec, i, j, ni, nj):
        nonlocal k
        v = vs[vi]
        rows, vals = [], []
        for r in range(ni):
            row = ""
            for q in range(nj):
                hx, val = value(v["xsz"], k)
                k += 1
                row += hx
                vals.append(val)
                written[(vi, rec, i + r, j + q)] = 1
            rows.append(hexb(row))
        start = ([rec] if v["isrec"] else []) + ([i] if v["n0"] > 1 else []) + [j]
        count = ([1] if v["isrec"] else []) + ([ni] if v["n0"] > 1 else []) + [nj]
        st.append({"op": "put", "v": vi, "form": "vara", "mode": "coll", "itype": XT[v["xsz"]][1], "start": start, "count": count,
                   "vals": vals, "rec": rec, "i": i, "wj": wide(j), "rows": rows, "obs": ["nzruns"]})
    blocks = []
    for vi, v in enumerate(vs):
        L, n0 = unwide(v["L"]), v["n0"]
        pos = positions(v, offs[vi], recsize, rng)
        for (rec, i, j) in pos:
            put(vi, rec, i, j, 1, 1)
        if n0 >= 2:
            # blocks of 2 rows x 6 elements: not contiguous in the file (the file type spans the long dimension)
            for (rec, i, j) in pos[:5]:
                i0 = min(i, n0 - 2)
                j0 = j + 24
                if j0 + 6 <= L and off(vi, rec, i0 + 1, j0 + 6) <= LIMIT and \
                        not any((vi, rec, i0 + r, j0 + q) in written for r in range(2) for q in range(-1, 7)):
                    put(vi, rec, i0, j0, 2, 6)
                    blocks.append((vi, rec, i0, j0))
    top = max([off(*w) for w in written] or [0])
    reads = [(w[0], w[1], w[2], w[3], 1) for w in written]
    # never-written neighbours are read too -- only inside the file (a read beyond its end is not defined)
    for (vi, rec, i, j) in list(written):
        L = unwide(vs[vi]["L"])
        for jj in (j + 1, j - 1):
            if 0 <= jj < L and (vi, rec, i, jj) not in written and off(vi, rec, i, jj) < top:
                reads.append((vi, rec, i, jj, 1))
    for (vi, rec, i0, j0) in blocks:        # each row of a block, with one element on either side
        for r in range(2):
            if j0 >= 1 and off(vi, rec, i0 + r, j0 + 7) < top:
                reads.append((vi, rec, i0 + r, j0 - 1, 8))
            else:
                reads.append((vi, rec, i0 + r, j0, 6))
    rng.shuffle(reads)
    for (vi, rec, i, j, n) in reads[:50]:
        v = vs[vi]
        start = ([rec] if v["isrec"] else []) + ([i] if v["n0"] > 1 else []) + [j]
        count = ([1] if v["isrec"] else []) + ([1] if v["n0"] > 1 else []) + [n]
        st.append({"op": "get", "v": vi, "form": "vara", "mode": "coll", "itype": XT[v["xsz"]][1], "start": start, "count": count,
                   "n": n, "rawhex": 1, "rec": rec, "i": i, "wj": wide(j), "obs": []})
    return st


def dim_probes():
    """def_dim at and around every documented limit, per format"""
    ex = []
    lens = [0, 1, (1 << 31) - 5, (1 << 31) - 4, (1 << 31) - 1, 1 << 31, (1 << 32) - 4, 1 << 32, (1 << 33) + 1, (1 << 62), (1 << 63) - 1, -1, -5]
    for fmt in (1, 2, 5):
        cm = ["CLOBBER"] + ([FMT[fmt]] if FMT[fmt] else [])
        st = [{"op": "create", "path": "a.nc", "cmode": cm, "fmtno": fmt, "obs": []}]
        for n, ln in enumerate(lens):
            if ln == 0 and n > 0:
                continue
            st.append({"op": "def_dim", "name": "d%d" % n, "len": ln, "wlen": wide(abs(ln)), "neg": ln < 0, "obs": []})
        st.append({"op": "abort", "obs": []})
        ex.append({"x": "dims%d" % fmt, "steps": st})
    return ex


def sig_of(tr, idx, tail, status):
    first = tail.splitlines()[0] if tail else ""
    failed = ",".join(__import__("re").findall(r'"FAILED", "([^"]+)"', first))
    if idx >= len(tr):
        return "rc=ABNORMAL;status=%s" % status
    ev = tr[idx]
    return "call=%s;rc=%s;failed=%s;status=%s" % (ev.get("e"), ev.get("rc"), failed, status)


def run(tier, seed):
    rng = random.Random(seed)
    mc = vlib.tlc_check("Limits_MC.tla", "cfg/Limits_mc.cfg", workers=4)
    if not mc["ok"]:
        raise vlib.InfraError("Limits design check failed:\n" + mc["out"][-3000:])
    gen = vlib.tlc_emit("Limits_MC.tla", "cfg/Limits_gen.cfg", workers=1)
    items = gen["items"]
    if len(items) < 3000:
        raise vlib.InfraError("Limits generator produced %d schemas\n%s" % (len(items), gen["out"][-1500:]))
    if tier == "quick":
        small = [it for it in items if len(it["vars"]) <= 2]
        big = [it for it in items if len(it["vars"]) == 3]
        rng.shuffle(big)
        items = small + big[:500]
    bld = vlib.build("dbg")
    # phase 1: definitions only (return codes, reported layout)
    ex1 = []
    for n, it in enumerate(items):
        ex1.append({"x": "s%d" % n, "steps": define_steps(it["fmt"], it["vars"]) + [{"op": "abort", "obs": []}], "it": it})
    ex1 += dim_probes()
    violations = []
    res1, acc1, rej1, st1 = vlib.run_validate(bld, ex1, MODULE, CFG, tag="c18-def", per_launch=120)
    byx = {e["x"]: e for e in ex1}

    def report(execs, res, rej, kw):
        bx = {e["x"]: e for e in execs}
        for x, idx, tail, r2 in vlib.confirm(bld, execs, rej, MODULE, CFG, **kw):
            tr = res[x]["events"]
            rp = vlib.save_replay(PID, x, {"exec": {k: v for k, v in bx[x].items() if k != "it"}, "trace": tr[max(0, idx - 1):idx + 1],
                                           "rejected_index": idx, "tlc": tail, "log": res[x]["log"][-1500:]})
            sch = bx[x].get("it")
            violations.append({"sig": sig_of(tr, idx, tail, res[x]["status"]) + (";fmt=%d;schema=%s" % (
                sch["fmt"], ",".join(("R" if v["isrec"] else "F") + str(unwide(v["L"]) * v["xsz"] * v["n0"]) for v in sch["vars"])) if sch else ""),
                "replay": rp, "what": "event %d not explained by Limits (status %s) %s: %s" % (
                    idx, res[x]["status"], tail.splitlines()[0] if tail else "", json.dumps(tr[idx] if idx < len(tr) else {})[:700])})
    report(ex1, res1, rej1, {})
    # phase 2: accepted definitions, elements written / read around the thresholds
    ex2 = []
    for e in ex1:
        it = e.get("it")
        r = res1.get(e["x"])
        if not it or not r or r["status"] != "ok":
            continue
        ev = [s for s in r["events"] if s["e"] == "enddef"]
        if not ev or ev[0]["rc"] != "NC_NOERR":
            continue
        if any(s["e"] == "def_var" and s["rc"] != "NC_NOERR" for s in r["events"]):
            continue
        lay = ev[0]["obs"]["wlayout"]
        offs = [unwide(w) for w in lay["offs"]]
        rs = unwide(lay["recsize"])
        ds = data_steps(it["vars"], offs, rs, random.Random(seed * 7919 + len(ex2)))
        if not ds:
            continue
        ex2.append({"x": "d" + e["x"][1:], "steps": define_steps(it["fmt"], it["vars"]) + ds + [{"op": "close", "obs": []}], "it": it})
    if tier == "quick":
        rng.shuffle(ex2)
        ex2 = ex2[:220]
    res2, acc2, rej2, st2 = vlib.run_validate(bld, ex2, MODULE, CFG, tag="c18-data", per_launch=20, per_step_timeout=60)
    report(ex2, res2, rej2, dict(per_step_timeout=60))
    nput = sum(1 for e in ex2 for s in e["steps"] if s["op"] in ("put", "get"))
    cov = {"states": mc["stats"].get("distinct", 0), "transitions": mc["stats"].get("generated", 0),
           "traces_validated_against_impl": len(acc1) + len(acc2), "evaluations": len(ex1) + len(ex2),
           "distinct_nontrivial": len(ex1) + nput, "trace_states": st1 + st2, "rejected_first_pass": len(rej1) + len(rej2),
           "schemas": len(items), "schemas_accepted_and_written": len(ex2), "element_accesses": nput,
           "samples": [[{k: v for k, v in s.items() if k != "obs"} for s in e["steps"]][:6] for e in ex2[:2]],
           "rule": "every schema of 1..3 variables over {fixed, record} x size classes {small, half, at the limit, just above, huge / "
                   "[4][2^32+16]} per format (3330; quick: all with <= 2 variables + 500 of the others) -> def_dim/def_var/enddef; def_dim at and "
                   "around 2^31-4, 2^31, 2^32, 2^63 per format; for accepted schemas up to 14 elements per variable (first, last, both "
                   "sides of 2^31 and 2^32 in bytes and in elements, records 0 and 1) written one by one with the sparse file's "
                   "non-zero runs compared after each, then read back together with never-written neighbours",
           "exhaustive": tier == "thorough"}
    return {"level": "model_checking", "coverage": cov, "violations": violations,
            "assumptions": ["header sizes of the schemas used lie in [32, 4096] bytes (constants HLo, HHi of the specification)",
                            "elements beyond 2 TiB are not touched; the file system supports sparse files and SEEK_DATA"]}


def replay(path):
    r = json.load(open(path))
    bld = vlib.build("dbg")
    res, acc, rej, _ = vlib.run_validate(bld, [r["exec"]], MODULE, CFG, par=1, per_step_timeout=60)
    if rej:
        print(rej[0][2][:800])
        print("VIOLATION property=%s replay=%s" % (PID, path))
        return 1
    print("accepted")
    return 0
