"""C09 -- numeric type conversion and range checking are exact.
spec/Convert.tla: the decision rule (NC_ECHAR iff exactly one side is text; NC_ERANGE iff some element is not
representable in the destination; representable elements delivered exactly, the others replaced by the fill value;
classic-format signed-byte/unsigned-char exemption), checked by TLC for all class combinations and used by Trace_Convert
to validate every put/get/put_att/get_att.  The class of each concrete value and its exact converted value are computed
here with arbitrary-precision / IEEE arithmetic (the projection from concrete numbers to the rule's classes)."""
import random, struct, math, json, sys, os
import vlib
sys.path.insert(0, os.path.join(vlib.VERIF, "harness"))
from pncdrv import proj

PID = "C09"
MODULE, CFG = "Trace_Convert.tla", "cfg/Trace_Convert.cfg"
INT = {"byte": (-128, 127), "short": (-2 ** 15, 2 ** 15 - 1), "int": (-2 ** 31, 2 ** 31 - 1), "int64": (-2 ** 63, 2 ** 63 - 1),
       "ubyte": (0, 255), "ushort": (0, 2 ** 16 - 1), "uint": (0, 2 ** 32 - 1), "uint64": (0, 2 ** 64 - 1)}
XT = ["byte", "char", "short", "int", "float", "double", "ubyte", "ushort", "uint", "int64", "uint64"]
CLASSIC = XT[:6]
# memory type -> the external type with the same value set
IT = {"text": "char", "schar": "byte", "uchar": "ubyte", "short": "short", "ushort": "ushort", "int": "int", "uint": "uint",
      "long": "int64", "float": "float", "double": "double", "longlong": "int64", "ulonglong": "uint64"}
NATIVE = {"byte": "schar", "char": "text", "short": "short", "int": "int", "float": "float", "double": "double",
          "ubyte": "uchar", "ushort": "ushort", "uint": "uint", "int64": "longlong", "uint64": "ulonglong"}
FLT_MAX = struct.unpack(">f", bytes.fromhex("7f7fffff"))[0]
DEFFILL = {"byte": -127, "char": 0, "short": -32767, "int": -2147483647, "float": 9.969209968386869e+36, "double": 9.969209968386869e+36,
           "ubyte": 255, "ushort": 65535, "uint": 4294967295, "int64": -9223372036854775806, "uint64": 18446744073709551614}
USERFILL = {"byte": 0x12, "short": 0x1234, "int": 0x01020304, "float": 1.5, "double": 2.5, "ubyte": 0x21, "ushort": 0x2143,
            "uint": 0x04030201, "int64": 0x0102030405060708, "uint64": 0x0807060504030201}


def f32(x):
    return struct.unpack(">f", struct.pack(">f", x))[0]


def candidates():
    c = {0, 1, -1, 2, -2, 100, -100}
    for lo, hi in INT.values():
        c |= {lo - 1, lo, lo + 1, hi - 1, hi, hi + 1}
    for k in (7, 8, 15, 16, 24, 31, 32, 53, 63, 64):
        c |= {2 ** k, -2 ** k, 2 ** k - 1, 2 ** k + 1}
    fl = [3.7, -3.7, 0.5, -0.5, 1e10, -1e10, 16777217.0, FLT_MAX, -FLT_MAX, 1e39, -1e39, 1e300, -1e300,
          float("nan"), float("inf"), float("-inf"), 2.5e-45, 123456.789]
    return sorted(c), fl


def values_of(t):
    """values exactly representable in type t (as Python int / float)"""
    ints, fl = candidates()
    if t in INT:
        lo, hi = INT[t]
        return [x for x in ints if lo <= x <= hi]
    if t == "float":
        out = []
        for x in ints + fl:
            try:
                y = f32(float(x))
            except OverflowError:
                continue
            if isinstance(x, int) and abs(x) > 2 ** 24 and y != x:
                continue
            if abs(y) in (2.0 ** 63, 2.0 ** 64):
                continue                  # (double)MAX of the 64-bit types: representability debatable, not used
            if y not in out and not (y != y and any(z != z for z in out)):
                out.append(y)
        return out
    if t == "double":
        out = []
        for x in ints + fl:
            y = float(x)
            if isinstance(x, int) and y != x:
                continue
            if abs(y) in (2.0 ** 63, 2.0 ** 64):
                continue
            if y not in out and not (y != y and any(z != z for z in out)):
                out.append(y)
        return out
    if t == "char":
        return [0, 65, 97, 127, 200, 255]
    raise ValueError(t)


def convert(x, src, dst):
    """-> (class, exact result or None).  src/dst are external-type names describing the value sets."""
    if dst in INT:
        lo, hi = INT[dst]
        if isinstance(x, float):
            if x != x or x in (float("inf"), float("-inf")):
                return "out", None
            if x != int(x) and (abs(x) > 2 ** 23 or (lo == 0 and -1 < x < 0)):
                return None, None         # fractional values at a bound: not used (representability is debatable)
            if abs(x) in (2.0 ** 63, 2.0 ** 64) and hi >= 2 ** 63 - 1:
                return None, None         # equals (double)MAX of a 64-bit type although it exceeds MAX: not used
            t = int(x)                    # truncation toward zero
        else:
            t = x
        if lo <= t <= hi:
            return "in", t
        if (src, dst) in (("ubyte", "byte"),) and 128 <= t <= 255:
            return "exempt", t - 256
        if (src, dst) in (("byte", "ubyte"),) and -128 <= t < 0:
            return "exempt", t + 256
        return "out", None
    if dst == "float":
        if isinstance(x, float) and (x != x or x in (float("inf"), float("-inf"))):
            return None, None             # NaN/Inf into a float: not used
        if abs(x) > FLT_MAX:
            return "out", None
        if isinstance(x, int) and abs(x) > 2 ** 53:
            d = float(x)
            if d != x:                     # double rounding hazard: skip
                return None, None
        return "in", f32(float(x))
    if dst == "double":
        if isinstance(x, float) and x in (float("inf"), float("-inf")):
            return None, None             # Inf into a double: not used
        if isinstance(x, int):
            d = float(x)
            return "in", d
        return "in", x
    if dst == "char":
        return "in", x
    raise ValueError(dst)


def build(tier, rng):
    execs = []
    n = 0
    pairs = 0
    for fmtno, fmt in [(1, None), (2, "64BIT_OFFSET"), (5, "64BIT_DATA")]:
        xts = CLASSIC if fmtno != 5 else XT
        if tier == "quick" and fmtno == 2:
            xts = ["byte", "int", "float"]
        for xt in xts:
            for userfill in ([False, True] if xt != "char" else [False]):
                steps = [{"op": "create", "path": "a.nc", "cmode": ["CLOBBER"] + ([fmt] if fmt else []), "setup": 1},
                         {"op": "def_dim", "name": "n", "len": 96, "setup": 1},
                         {"op": "def_var", "name": "v", "xtype": xt, "dims": [0], "setup": 1}]
                fill = DEFFILL[xt]
                if userfill:
                    fill = USERFILL[xt]
                    steps.append({"op": "put_att", "v": 0, "name": "_FillValue", "xtype": xt, "itype": NATIVE[xt], "vals": [fill], "setup": 1})
                steps.append({"op": "enddef", "setup": 1})
                for it, itx in IT.items():
                    srct, dstt = (it == "text"), (xt == "char")
                    vals = values_of(itx)
                    rng.shuffle(vals)
                    use, cls, exp = [], [], []
                    for x in vals:
                        c, e = convert(x, itx, xt) if not (srct or dstt) else ("in", x)
                        if c is None:
                            continue
                        use.append(x)
                        cls.append(c)
                        exp.append(proj(e) if e is not None else "none")
                    if not use:
                        continue
                    pairs += 1
                    steps.append({"op": "put", "v": 0, "form": "vara", "mode": "coll", "itype": it, "start": [0], "count": [len(use)], "vals": use,
                                  "what": "put", "srctext": srct, "dsttext": dstt, "fmtno": fmtno, "cls": cls, "exp": exp, "fill": proj(fill),
                                  "obs": ["disk"], "n_used": len(use)})
                # reads: native content first, then every memory type
                nat = values_of(xt)
                steps.append({"op": "put", "v": 0, "form": "vara", "mode": "coll", "itype": NATIVE[xt], "start": [0], "count": [len(nat)], "vals": nat,
                              "setup": 1})
                for it, itx in IT.items():
                    srct, dstt = (xt == "char"), (it == "text")
                    idx, cls, exp = [], [], []
                    for k, x in enumerate(nat):
                        c, e = convert(x, xt, itx) if not (srct or dstt) else ("in", x)
                        if c is None:
                            c, e = "in", None
                            exp.append("?")
                        else:
                            exp.append(proj(e) if e is not None else "none")
                        cls.append(c)
                    pairs += 1
                    if it == "long":   # the default fill value of memory type long is not documented: unconstrained
                        exp = ["?" if c == "out" or (c == "exempt" and fmtno == 5) else e for c, e in zip(cls, exp)]
                    steps.append({"op": "get", "v": 0, "form": "vara", "mode": "coll", "itype": it, "start": [0], "count": [len(nat)], "n": len(nat),
                                  "what": "get", "srctext": srct, "dsttext": dstt, "fmtno": fmtno, "cls": cls, "exp": exp,
                                  "fill": "?" if it == "long" else (proj(DEFFILL[itx]) if itx != "char" else 0), "obs": []})
                steps.append({"op": "close", "setup": 1})
                execs.append({"x": "v%d" % n, "steps": steps})
                n += 1
            # attributes: same rule
            steps = [{"op": "create", "path": "b.nc", "cmode": ["CLOBBER"] + ([fmt] if fmt else []), "setup": 1}]
            if xt != "char":
                for it, itx in IT.items():
                    if it == "text":
                        continue
                    vals = values_of(itx)
                    rng.shuffle(vals)
                    use, cls, exp = [], [], []
                    for x in vals[:24]:
                        c, e = convert(x, itx, xt)
                        if c is None:
                            continue
                        use.append(x)
                        cls.append(c)
                        exp.append(proj(e) if e is not None else "none")
                    pairs += 1
                    meta = {"srctext": False, "dsttext": False, "fmtno": fmtno, "cls": cls, "exp": exp, "fill": proj(DEFFILL[xt]),
                            "dbg": {"xtype": xt, "itype": it, "vals": [proj(x) for x in use]}}
                    steps.append(dict(meta, op="put_att", v=-1, name="a", xtype=xt, itype=it, vals=use, what="putatt_rc", obs=[]))
                    steps.append({"op": "enddef", "setup": 1})
                    steps.append(dict(meta, op="noop", what="putatt", obs=["disk"]))
                    steps.append({"op": "redef", "setup": 1})
                    # and read it back through every memory type
                    stored = [e if c != "out" and not (c == "exempt" and fmtno == 5) else DEFFILL[xt] for c, e in
                              [(convert(x, itx, xt)) for x in use]]
                    for it2, itx2 in IT.items():
                        if it2 == "text":
                            continue
                        cls2, exp2 = [], []
                        if any(convert(y, xt, itx2)[0] is None for y in stored):
                            continue      # a value of debatable representability is stored: this read decides nothing
                        for y in stored:
                            c, e = convert(y, xt, itx2)
                            if c is None:
                                cls2.append("in")
                                exp2.append("?")
                            else:
                                cls2.append(c)
                                exp2.append(proj(e) if e is not None else "none")
                        if tier == "quick" and rng.random() < 0.7:
                            continue
                        steps.append({"op": "get_att", "v": -1, "name": "a", "itype": it2, "what": "getatt", "srctext": False, "dsttext": False,
                                      "fmtno": fmtno, "cls": cls2, "exp": exp2, "fill": "?" if it2 == "long" else proj(DEFFILL[itx2]), "obs": [],
                                      "dbg": {"xtype": xt, "stored": [proj(y) for y in stored]}})
                steps.append({"op": "close", "setup": 1})
                execs.append({"x": "a%d" % n, "steps": steps})
                n += 1
    return execs, pairs


def run(tier, seed):
    rng = random.Random(seed)
    mc = vlib.tlc_check("Convert_MC.tla", "cfg/Convert_mc.cfg", workers=2)
    if not mc["ok"]:
        raise vlib.InfraError("Convert design check failed:\n" + mc["out"][-2000:])
    bld = vlib.build("dbg")
    execs, pairs = build(tier, rng)
    res, acc, rej, states = vlib.run_validate(bld, execs, MODULE, CFG, tag="c09", chunk=20)
    violations = []
    byx = {e["x"]: e for e in execs}
    for x, idx, tail, r2 in vlib.confirm(bld, execs, rej, MODULE, CFG):
        tr = res[x]["events"]
        ev = tr[idx] if idx < len(tr) else {}
        a = ev.get("a", {})
        first = tail.splitlines()[0] if tail else ""
        sig = "what=%s;xtype=%s;itype=%s;fmt=%s;rc=%s;failed=%s" % (a.get("what"), byx[x]["steps"][2].get("xtype") if len(byx[x]["steps"]) > 2 else a.get("xtype"),
                                                                a.get("itype"), a.get("fmtno"), ev.get("rc"), ",".join(__import__("re").findall(r'"FAILED", "([^"]+)"', first)))
        rp = vlib.save_replay(PID, x, {"exec": byx[x], "trace": [ev], "rejected_index": idx, "tlc": tail})
        violations.append({"sig": sig, "replay": rp, "what": "event %d: %s %s" % (idx, first, json.dumps(vlib._san(ev))[:900])})
    cov = {"states": mc["stats"].get("distinct", 0), "transitions": mc["stats"].get("generated", 0), "traces_validated_against_impl": len(acc),
           "evaluations": pairs, "distinct_nontrivial": pairs, "trace_states": states,
           "samples": [{k: v for k, v in s.items() if k in ("op", "itype", "what", "cls", "exp")} for s in execs[0]["steps"][5:7]],
           "rule": "every external type of the format x every memory type (12 incl. long and text) x {put, get} for variables (default and "
                   "user-defined _FillValue) and {put_att, get_att}; values: every bound of every integer type and its neighbours, 0, +-1, "
                   "powers of two, float/double extremes, NaN, +-Inf, fractional values (all that the source type represents exactly), "
                   "in shuffled positions of one call; evaluations counts (type pair, direction, object kind) calls",
           "exhaustive": False}
    return {"level": "model_checking", "coverage": cov, "violations": violations,
            "assumptions": ["class and exact result of each value computed by Python integers / struct-packed IEEE floats",
                            "fractional values near integer bounds and NaN/Inf into float are not used (representability debatable)"]}


def replay(path):
    r = json.load(open(path))
    bld = vlib.build("dbg")
    res, acc, rej, _ = vlib.run_validate(bld, [r["exec"]], MODULE, CFG, par=1)
    if rej:
        print(rej[0][2][:800])
        print("VIOLATION property=%s replay=%s" % (PID, path))
        return 1
    print("accepted")
    return 0
