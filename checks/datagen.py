"""Translation of Data-model histories (TLC output) into driver scripts.  The model fixes WHAT is
accessed (variable, elements, tokens, grouping of waits); this module picks HOW, among the API forms
that denote the same request (var/var1/vara/vars/varm/varn/vard, typed or flexible with a derived
buffer datatype, memory type, collective or independent), seeded."""
import random

TYPES = {"byte": 1, "char": 1, "short": 2, "int": 4, "float": 4, "double": 8, "ubyte": 1, "ushort": 2,
         "uint": 4, "int64": 8, "uint64": 8}
NATIVE = {"byte": "schar", "char": "text", "short": "short", "int": "int", "float": "float", "double": "double",
          "ubyte": "uchar", "ushort": "ushort", "uint": "uint", "int64": "longlong", "uint64": "ulonglong"}
CONV = ["schar", "uchar", "short", "ushort", "int", "uint", "long", "float", "double", "longlong", "ulonglong"]
# memory types that can hold every value of the external type (reads of never-written bytes must not
# produce range errors the model knows nothing about)
WIDER = {"byte": ["schar", "short", "int", "long", "longlong", "float", "double"],
         "short": ["short", "int", "long", "longlong", "float", "double"],
         "int": ["int", "long", "longlong", "double"], "float": ["float", "double"], "double": ["double"],
         "ubyte": ["uchar", "short", "ushort", "int", "uint", "long", "longlong", "ulonglong", "float", "double"],
         "ushort": ["ushort", "int", "uint", "long", "longlong", "ulonglong", "float", "double"],
         "uint": ["uint", "long", "longlong", "ulonglong", "double"], "int64": ["longlong", "long"],
         "uint64": ["ulonglong"], "char": ["text"]}
LAYOUTS = ["contig", "contig1", "vector", "vector23", "indexed", "subarray", "resized", "ignore"]
OBS = ["nreqs", "numrecs", "abuf", "disk"]

# the variable table of Data_MC.MCVarTab: name, dims (names), xtype; "t" is the record dimension
MC_DIMS = [("t", 0), ("y", 2), ("x", 3), ("z", 2)]
MC_VARS = [("F", ["y", "x"], "int"), ("R", ["t", "z"], "int"), ("G", ["t", "z"], "short")]
MAXREC = 3
# the variable table of Nonblock_MC.NVarTab
NB_DIMS = [("t", 0), ("y6", 6), ("x4", 4), ("z2", 2), ("w4", 4)]
NB_VARS = [("F", ["y6", "x4"], "int"), ("R", ["t", "x4"], "int"), ("G", ["t", "z2"], "short"), ("H", ["w4"], "double")]


def vartab(vars_, dims, maxrec=MAXREC):
    dl = dict(dims)
    out = []
    for name, dn, xt in vars_:
        rec = bool(dn) and dl[dn[0]] == 0
        shape = [maxrec if (i == 0 and rec) else dl[d] for i, d in enumerate(dn)]
        out.append({"shape": shape, "rec": rec, "xsz": TYPES[xt]})
    return out


def fixture(vars_=MC_VARS, dims=MC_DIMS, fmt=None, fill=False, info=None):
    cm = ["CLOBBER"] + ([fmt] if fmt else [])
    st = [{"op": "create", "path": "a.nc", "cmode": cm, "setup": 1, "info": info}]
    ids = {}
    for i, (n, ln) in enumerate(dims):
        st.append({"op": "def_dim", "name": n, "len": ln, "setup": 1})
        ids[n] = i
    for n, dn, xt in vars_:
        st.append({"op": "def_var", "name": n, "xtype": xt, "dims": [ids[d] for d in dn], "setup": 1})
    st.append({"op": "enddef", "setup": 1})
    return st


def header_for(vars_=MC_VARS, dims=MC_DIMS):
    vt = vartab(vars_, dims)
    return lambda events: {"vars": vt}


def _prod(l):
    p = 1
    for x in l:
        p *= x
    return p


class Translator:
    def __init__(self, rng, vars_=MC_VARS, dims=MC_DIMS, forms=None, conv=True, flex=True, modes=True, obs=OBS):
        self.rng = rng
        self.vars = vars_
        self.dl = dict(dims)
        self.indep = False
        self.forms = forms
        self.conv = conv
        self.flex = flex
        self.modes = modes
        self.obs = obs
        self.numrecs = 0
        self.pending = []

    def shape(self, v):
        return [self.dl[d] for d in self.vars[v][1]]

    def access_args(self, r, rw, ok=True):
        """choose an API form denoting request r"""
        rng = self.rng
        v = r["v"]
        xt = self.vars[v][2]
        subs = r["subs"]
        a = {"v": v}
        n = 0
        for s in subs:
            k = 1
            for c in s["count"]:
                k *= c
            n += k
        if len(subs) > 1:
            a.update(form="varn", starts=[s["start"] for s in subs], counts=[s["count"] for s in subs])
        else:
            s = subs[0]
            unit = all(x == 1 for x in s["stride"])
            cands = ["vars", "varm"]
            if unit:
                cands += ["vara", "vara", "varn"]
                if all(c == 1 for c in s["count"]):
                    cands += ["var1", "var1"]
                if ok and all(c > 0 for c in s["count"]) and len(s["count"]) > 0 and xt != "char":
                    cands += ["vard"]     # vard carries no start/count the library could check
            if self.forms:
                cands = [c for c in cands if c in self.forms] or ["vars"]
            form = rng.choice(cands)
            a["form"] = form
            if form == "var1":
                a["start"] = s["start"]
            elif form in ("vara", "vard"):
                a.update(start=s["start"], count=s["count"])
            elif form == "vars":
                a.update(start=s["start"], count=s["count"])
                if not (unit and rng.random() < 0.5):
                    a["stride"] = s["stride"]          # key absent == NULL stride
            elif form == "varm":
                a.update(start=s["start"], count=s["count"])
                if not (unit and rng.random() < 0.3):
                    a["stride"] = s["stride"]
                cnt = s["count"]
                if n > 0 and rng.random() < 0.7 and len(cnt) > 0:
                    # a non-canonical imap: transposed and/or padded memory layout
                    nd = len(cnt)
                    order = list(range(nd))
                    if rng.random() < 0.5:
                        order.reverse()
                    padf = rng.choice([0, 1])
                    imap = [0] * nd
                    acc = 1
                    for d in reversed(order):
                        imap[d] = acc
                        acc *= (cnt[d] + padf)
                    pos = []
                    idx = [0] * nd
                    for k in range(n):
                        rem = k
                        for d in reversed(range(nd)):
                            idx[d] = rem % cnt[d]
                            rem //= cnt[d]
                        pos.append(sum(idx[d] * imap[d] for d in range(nd)))
                    a["imap"] = imap
                    a["imap_buf"] = {"pos": pos, "total": max(pos) + 1}
            elif form == "varn":
                a.update(starts=[s["start"]])
                if not (all(c == 1 for c in s["count"]) and rng.random() < 0.5):
                    a["counts"] = [s["count"]]             # key absent == NULL counts
        it = NATIVE[xt]
        if self.conv and xt != "char" and rng.random() < 0.35:
            it = rng.choice(CONV if rw == "put" else WIDER[xt])
        a["itype"] = it
        if a["form"] == "vard":
            a["itype"] = it = NATIVE[xt] if rng.random() < 0.7 else it
        if self.flex and rng.random() < 0.4 and not a.get("imap_buf"):
            lay = rng.choice(LAYOUTS)
            if not (lay == "ignore" and a["form"] == "vard"):
                a["flex"] = {"layout": lay}
        if a["form"] == "vard" and "flex" not in a:
            pass
        if rw == "get":
            a["n"] = n
        return a

    def maybe_switch(self, out):
        if self.modes and self.rng.random() < 0.15:
            self.indep = not self.indep
            out.append({"op": "begin_indep" if self.indep else "end_indep", "obs": self.obs})

    def steps(self, hist):
        out = []
        rng = self.rng
        for c in hist:
            k = c["c"]
            if k in ("put", "get"):
                self.maybe_switch(out)
                a = self.access_args(c["r"], k, c["rc"] == "NC_NOERR")
                a.update(op=k, mode="indep" if self.indep else "coll")
                if k == "put":
                    a["vals"] = c["tok"]
            elif k in ("iput", "bput", "iget"):
                a = self.access_args(c["r"], "get" if k == "iget" else "put", c["rc"] == "NC_NOERR")
                if a["form"] == "vard":   # there is no nonblocking vard
                    a["form"] = "vara"
                    a.pop("flex", None) if a.get("flex", {}).get("layout") == "ignore" else None
                a.update(op="get" if k == "iget" else "put", kind="b" if k == "bput" else "i", req=c["lab"])
                nel = sum(_prod(s_["count"]) for s_ in c["r"]["subs"])
                if c["rc"] == "NC_NOERR" and nel > 0:
                    self.pending.append(c["lab"])
                    self.kinds = dict(getattr(self, "kinds", {}), **{c["lab"]: k})
                if k != "iget":
                    a["vals"] = c["tok"]
            elif k in ("wait", "cancel"):
                self.maybe_switch(out) if k == "wait" else None
                named = list(c["named"])
                rng.shuffle(named)
                reqs = named
                if rng.random() < 0.3:
                    reqs = list(named)
                    reqs.insert(rng.randrange(len(reqs) + 1), "NULL")
                if set(named) == set(self.pending) and rng.random() < 0.4:
                    reqs = "ALL"
                # all pending reads / all pending writes (possibly none): the by-kind forms NC_GET_REQ_ALL / NC_PUT_REQ_ALL
                kinds = getattr(self, "kinds", {})
                gets = {x for x in self.pending if kinds.get(x) == "iget"}
                puts = set(self.pending) - gets
                if set(named) == gets and (not named or rng.random() < 0.5):
                    reqs = "GET_ALL"
                elif set(named) == puts and (not named or rng.random() < 0.5):
                    reqs = "PUT_ALL"
                self.pending = [x for x in self.pending if x not in named]
                a = {"op": k, "special": reqs} if isinstance(reqs, str) else {"op": k, "reqs": reqs}
                if k == "wait":
                    a["mode"] = "indep" if self.indep else "coll"
            elif k == "reopen":
                a = {"op": "close", "obs": ["disk"]}
                out.append(a)
                a = {"op": "open", "path": "a.nc", "omode": ["WRITE"]}
                self.indep = False
            elif k == "attach":
                a = {"op": "buffer_attach", "size": c["size"]}
            elif k == "detach":
                a = {"op": "buffer_detach"}
            else:
                raise ValueError(k)
            a["obs"] = self.obs
            out.append(a)
        return out
