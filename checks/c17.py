"""C17 -- file handles and library resources have a clean lifecycle.
spec/Files.tla (design check + generator), spec/Trace_Files.tla (trace validation)."""
import json, random
import vlib

PID = "C17"
OBS = ["files", "diskall", "quiet"]

# one representative of every API family, used on ids that are not open
STALE_OPS = {
    "inq": {"op": "inq"}, "inq_format": {"op": "inq_format"}, "inq_nreqs": {"op": "inq_nreqs"},
    "def_dim": {"op": "def_dim", "name": "zz", "len": 2}, "def_var": {"op": "def_var", "name": "zv", "xtype": "int", "dims": []},
    "enddef": {"op": "enddef"}, "_enddef": {"op": "_enddef"}, "redef": {"op": "redef"},
    "begin_indep": {"op": "begin_indep"}, "end_indep": {"op": "end_indep"}, "sync": {"op": "sync"},
    "sync_numrecs": {"op": "sync_numrecs"}, "flush": {"op": "flush"},
    "put": {"op": "put", "v": 0, "form": "var1", "mode": "coll", "itype": "int", "start": [0], "vals": [1]},
    "get": {"op": "get", "v": 0, "form": "var1", "mode": "indep", "itype": "int", "start": [0], "n": 1},
    "iput": {"op": "put", "kind": "i", "v": 0, "form": "var1", "itype": "int", "start": [0], "vals": [1]},
    "iget": {"op": "get", "kind": "i", "v": 0, "form": "var1", "itype": "int", "start": [0], "n": 1},
    "bput": {"op": "put", "kind": "b", "v": 0, "form": "var1", "itype": "int", "start": [0], "vals": [1]},
    "wait_all": {"op": "wait", "mode": "coll", "reqs": "ALL"}, "wait": {"op": "wait", "mode": "indep", "reqs": "ALL"},
    "cancel": {"op": "cancel", "reqs": "ALL"},
    "buffer_attach": {"op": "buffer_attach", "size": 16}, "buffer_detach": {"op": "buffer_detach"},
    "inq_buffer": {"op": "inq_buffer"},
    "put_att": {"op": "put_att", "v": -1, "name": "a", "itype": "text", "vals": "x"},
    "get_att": {"op": "get_att", "v": -1, "name": "a"}, "inq_att": {"op": "inq_att", "v": -1, "name": "a"},
    "del_att": {"op": "del_att", "v": -1, "name": "a"},
    "rename_att": {"op": "rename_att", "v": -1, "name": "a", "new": "b"},
    "rename_var": {"op": "rename_var", "v": 0, "new": "b"}, "rename_dim": {"op": "rename_dim", "d": 0, "new": "b"},
    "set_fill": {"op": "set_fill", "fill": "FILL"}, "def_var_fill": {"op": "def_var_fill", "v": 0, "nofill": 1},
    "inq_var_fill": {"op": "inq_var_fill", "v": 0}, "fill_var_rec": {"op": "fill_var_rec", "v": 0, "rec": 0},
    "inq_varid": {"op": "inq_varid", "name": "v"}, "inq_dimid": {"op": "inq_dimid", "name": "d0"},
    "inq_file_info": {"op": "inq_file_info"}, "close": {"op": "close"}, "abort": {"op": "abort"},
}


def step_of(c, nd, rng, pick):
    k, f = c["c"], c["f"]
    if k == "create":
        s = {"op": "create", "path": f + ".nc", "cmode": ["CLOBBER"], "comm": rng.choice(["world", "dup", "self"])}
    elif k == "open":
        s = {"op": "open", "path": f + ".nc", "omode": ["WRITE"], "comm": rng.choice(["world", "dup"])}
    elif k in ("close", "abort", "enddef"):
        s = {"op": k}
    elif k == "def_dim":
        s = {"op": "def_dim", "name": "d%d" % nd.get(f, 0), "len": 3}
    elif k == "def_var":
        s = {"op": "def_var", "name": "v", "xtype": "int", "dims": [0]}
    elif k == "iget":
        s = {"op": "get", "kind": "i", "req": "g" + f, "v": 0, "form": "vara", "itype": "int", "start": [0], "count": [1], "n": 1}
    elif k == "stale":
        name = pick()
        s = dict(STALE_OPS[name])
        s["stale"] = name
    else:
        raise ValueError(k)
    s["f"] = f
    s["obs"] = OBS
    return s


def steps_of(hist, extra, rng, pick):
    """translate a model history (+ extra calls) into driver steps, tracking what the
    translation itself needs (dimension names)"""
    nd = {}
    out = []
    for c in hist + extra:
        out.append(step_of(c, nd, rng, pick))
        if c["c"] == "def_dim" and c["rc"] == "NC_NOERR":
            nd[c["f"]] = nd.get(c["f"], 0) + 1
        if c["c"] in ("create",) and c["rc"] == "NC_NOERR":
            nd[c["f"]] = 0
        if c["c"] == "abort":
            pass
    return out


def build_execs(items, tier, rng):
    by_src = {}
    for it in items:
        h = it["h"]
        src = json.dumps(h[:-1], sort_keys=True)
        e = by_src.setdefault(src, {"h": h[:-1], "loops": [], "chg": []})
        (e["chg"] if it["chg"] else e["loops"]).append(h[-1])
    srcs = sorted(by_src)
    rng.shuffle(srcs)
    if tier == "quick":
        srcs = srcs[:2000]
    names = sorted(STALE_OPS)
    cnt = [rng.randrange(len(names))]

    def pick():
        cnt[0] += 1
        return names[cnt[0] % len(names)]
    execs = []
    nontriv = 0
    for n, src in enumerate(srcs):
        e = by_src[src]
        loops = list(e["loops"])
        rng.shuffle(loops)
        # each model "stale" self-loop stands for the whole API: expand it over several families
        exp = []
        for c in loops:
            exp.append(c)
            if c["c"] == "stale":
                exp += [c] * 3
        execs.append({"x": "s%d" % n, "steps": steps_of(e["h"], exp, rng, pick), "n": len(exp)})
        nontriv += len(exp)
        for j, c in enumerate(e["chg"]):
            execs.append({"x": "s%dc%d" % (n, j), "steps": steps_of(e["h"], [c], rng, pick), "n": 1})
            nontriv += 1
    return execs, len(by_src), nontriv


def table_scenario(rng):
    """the real table: NC_MAX_NFILES files open at once, one more refused, a middle id reissued,
    out-of-range ids"""
    st = []
    n = 1024
    for i in range(n):
        st.append({"op": "create", "f": "L%d" % i, "path": "L%d.nc" % i, "cmode": ["CLOBBER"], "comm": "self"})
    st[-1]["obs"] = OBS
    st.append({"op": "create", "f": "X", "path": "X.nc", "cmode": ["CLOBBER"], "comm": "self", "obs": OBS})
    mid = rng.randrange(1, n - 1)
    st.append({"op": "close", "f": "L%d" % mid, "obs": OBS})
    st.append({"op": "inq", "f": "L%d" % mid, "stale": "inq", "obs": OBS})
    st.append({"op": "create", "f": "X", "path": "X.nc", "cmode": ["CLOBBER"], "comm": "self", "obs": OBS})
    st.append({"op": "def_dim", "f": "X", "name": "d0", "len": 3, "obs": OBS})
    for i in range(n):
        if i != mid:
            st.append({"op": "close" if i % 2 else "abort", "f": "L%d" % i})
    st[-1]["obs"] = OBS
    st.append({"op": "close", "f": "X", "obs": OBS})
    return {"x": "table", "steps": st, "n": 6}


def badid_scenario():
    st = [{"op": "create", "f": "a", "path": "a.nc", "cmode": ["CLOBBER"], "obs": OBS}]
    for i, bad in enumerate([-1, -7, 1024, 1025, 5000, 2 ** 30, -2 ** 31]):
        for name in sorted(STALE_OPS):
            s = dict(STALE_OPS[name])
            s.update(f="bad%d" % i, ncid=bad, stale=name, obs=["files"] if name not in ("close", "abort") else OBS)
            st.append(s)
    st.append({"op": "close", "f": "a", "obs": OBS})
    # ... and with no file open at all
    for name in sorted(STALE_OPS):
        s = dict(STALE_OPS[name])
        s.update(f="a", stale=name, obs=OBS)
        st.append(s)
    return {"x": "badid", "steps": st, "n": len(st)}


def header(events):
    labs = sorted({e["a"]["f"] for e in events if e.get("e") != "Reset" and "f" in e.get("a", {})})
    ops = sorted({e["a"]["stale"] for e in events if e.get("e") != "Reset" and "stale" in e.get("a", {})})
    return {"labels": labs or ["a"], "staleops": ops or ["inq"]}


def sig_of(tr, idx, status, steps=None):
    if idx >= len(tr):   # the execution ended abnormally (crash / hang) in the call after the last event
        nxt = steps[len(tr)] if steps and len(tr) < len(steps) else {}
        return "call=%s;stale=%s;rc=ABNORMAL;status=%s;hist=%s" % (nxt.get("op"), nxt.get("stale"), status,
                                                                ",".join(t["e"] for t in tr[-4:]))
    ev = tr[idx] if 0 <= idx < len(tr) else {}
    hist = [t["e"] + ("!" if "stale" in t.get("a", {}) else "") for t in tr[:idx]]
    q = ev.get("obs", {}).get("quiet", {})
    return "call=%s;stale=%s;rc=%s;status=%s;quiet=%s;hist=%s" % (
        ev.get("e"), ev.get("a", {}).get("stale"), ev.get("rc"), status,
        json.dumps(q, sort_keys=True) if not ev.get("obs", {}).get("files") else "-", ",".join(hist[-5:]))


def run(tier, seed):
    rng = random.Random(seed)
    bld = vlib.build("dbg")
    mc = vlib.tlc_check("Files_MC.tla", "cfg/Files_mc.cfg", workers=4)
    if not mc["ok"]:
        raise vlib.InfraError("Files design check failed:\n" + mc["out"][-3000:])
    if vlib.tlc_check("Files_MC.tla", "cfg/Files_reach.cfg", workers=2, coverage=False)["ok"]:
        raise vlib.InfraError("vacuity: ReachFull not reachable")
    gen = vlib.tlc_emit("Files_MC.tla", "cfg/Files_gen.cfg")
    items = gen["items"]
    if len(items) < 1000:
        raise vlib.InfraError("generation produced %d items\n%s" % (len(items), gen["out"][-2000:]))
    execs, nsrc, nontriv = build_execs(items, tier, rng)
    big = [table_scenario(rng)]
    execs.append(badid_scenario())
    vlib.log("C17: %d model transitions, %d source states, %d executions" % (len(items), nsrc, len(execs)))
    kw = dict(np=1, shim=True, chunk=800, header=header)
    res, acc, rej, states = vlib.run_validate(bld, execs, "Trace_Files.tla", "cfg/Trace_Files.cfg", tag="c17", **kw)
    resb, accb, rejb, statesb = vlib.run_validate(bld, big, "Trace_Files.tla", "cfg/Trace_Files_big.cfg", tag="c17big", **kw)
    conf = vlib.confirm(bld, execs, rej, "Trace_Files.tla", "cfg/Trace_Files.cfg", **kw) + \
        vlib.confirm(bld, big, rejb, "Trace_Files.tla", "cfg/Trace_Files_big.cfg", **kw)
    res.update(resb)
    acc += accb
    states += statesb
    execs = execs + big
    violations = []
    for x, idx, tail, r2 in conf:
        tr = vlib.flat1(res[x])
        ex = [e for e in execs if e["x"] == x][0]
        rp = vlib.save_replay(PID, x, {"exec": ex, "trace": tr[max(0, idx - 3):idx + 1], "rejected_index": idx, "tlc": tail, "log": res[x]["log"][-3000:]})
        violations.append({"sig": sig_of(tr, idx, res[x]["status"], ex["steps"]), "replay": rp,
                           "what": "event %d not explained by Files (status %s): %s\n%s" % (idx, res[x]["status"], json.dumps(tr[idx] if idx < len(tr) else {})[:700], res[x]["log"][-600:])})
    cov = {"states": mc["stats"].get("distinct", 0), "transitions": mc["stats"].get("generated", 0),
           "traces_validated_against_impl": len(acc),
           "samples": [[(s["op"], s["f"]) for s in e["steps"]][:14] for e in execs[:3]],
           "evaluations": len(execs), "distinct_nontrivial": nontriv + 2,
           "rule": "one execution per (sampled) source state of the Files state graph (3 labels, table of 2 in the model): history + "
                   "all state-preserving calls (each stale-id transition expanded over 4 API families), one execution per "
                   "state-changing call; plus the real-table scenario (1024 files open, one refused, id reissued) and the "
                   "out-of-range-id scenario over every API family",
           "model_transitions": len(items), "model_source_states": nsrc, "trace_states": states,
           "exhaustive": tier == "thorough", "rejected_first_pass": len(rej) + len(rejb),
           "action_coverage": {k: v[0] for k, v in mc["coverage"].items()}}
    return {"level": "model_checking", "coverage": cov, "violations": violations,
            "assumptions": ["--enable-debug build reports library heap use through ncmpi_inq_malloc_size",
                            "PMPI shim counts MPI object creation/free made by the library (the harness uses PMPI_ entry points)"]}


def replay(path):
    r = json.load(open(path))
    bld = vlib.build("dbg")
    res, acc, rej, _ = vlib.run_validate(bld, [r["exec"]], "Trace_Files.tla", "cfg/Trace_Files_big.cfg", np=1, shim=True, par=1, header=header)
    if rej:
        x, idx, tail = rej[0]
        tr = vlib.flat1(res[x])
        print("rejected at event", idx, json.dumps(tr[idx] if idx < len(tr) else {})[:1500])
        print(tail[-1200:])
        print("VIOLATION property=%s replay=%s" % (PID, path))
        return 1
    print("accepted")
    return 0
