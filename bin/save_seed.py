#!/usr/bin/env python3
"""save_seed.py <ID> <M> "<what it needs to manifest>" -- copies a confirmed seeded change from /tmp/mut/<ID>
into /verif/seeded/<ID>/<M>/ (patch.diff, demo.c, meta.json)"""
import sys, os, json, shutil
pid, m, needs = sys.argv[1], sys.argv[2], sys.argv[3]
src = "/tmp/mut/%s" % pid
dst = "/verif/seeded/%s/%s" % (pid, m)
os.makedirs(dst, exist_ok=True)
shutil.copy(os.path.join(src, "mut%s.diff" % m), os.path.join(dst, "patch.diff"))
shutil.copy(os.path.join(src, "demo_%s.c" % m), os.path.join(dst, "demo.c"))
conf = {}
cf = os.path.join(src, "confirm_%s.json" % m)
if os.path.exists(cf):
    conf = json.load(open(cf))
meta = {"property": pid, "mutation": m, "needs": needs,
        "confirmed": conf,
        "confirm_procedure": "bin/confirm_seed.sh: scratch copy of /repo, demo exits 0 on the pristine build, patch applied, "
                             "make check (no FAIL/ERROR, >=70 PASS), demo exits non-zero on the patched build",
        "detected_by": []}
mp = os.path.join(dst, "meta.json")
if os.path.exists(mp):
    old = json.load(open(mp))
    meta["detected_by"] = old.get("detected_by", [])
json.dump(meta, open(mp, "w"), indent=1)
print("saved", dst, conf.get("ok"))
