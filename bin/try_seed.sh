#!/bin/bash
# try_seed.sh <patch.diff> <ID> [tier]  -- applies a seeded change to /repo, runs the check, reverts.
P=$1; ID=$2; TIER=${3:---quick}
cd /repo && git apply "$P" || { echo "patch does not apply"; exit 2; }
cd /verif && bin/check $ID $TIER 2>/dev/null | grep -E "^(VIOLATION|KNOWN|C[0-9]+ )|signature" | head -8
RC=${PIPESTATUS[0]}
cd /repo && git checkout -- . 
echo "exit=$RC"
