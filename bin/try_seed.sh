#!/bin/bash
# try_seed.sh <patch.diff> <ID> [tier]  -- runs a check against a scratch copy of /repo with a seeded change applied
# (/repo itself is not touched, so other checks can run meanwhile)
P=$1; ID=$2; TIER=${3:---quick}
W=/var/tmp/seedrepo.$$
rm -rf $W; mkdir -p $W
rsync -a --exclude='.git' --exclude='*.o' --exclude='*.lo' --exclude='*.la' --exclude='.libs' --exclude='.deps' /repo/ $W/
( cd $W && patch -p1 -s < "$P" ) || { echo "patch does not apply"; rm -rf $W; exit 2; }
cd /verif && VERIF_REPO=$W bin/check $ID $TIER 2>/dev/null | grep -E "^(VIOLATION|KNOWN|C[0-9]+ )|signature" | head -8
RC=${PIPESTATUS[0]}
rm -rf $W
echo "exit=$RC"
