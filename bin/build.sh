#!/bin/bash
# build.sh <variant>  -> prints the path of a scratch build of /repo's working tree
# variants: dbg (hooks on, --enable-debug, burst buffer), san (dbg + ASan/UBSan), off (no guard, default options)
# The copy lives under /var/tmp/pnc-verif/<variant>-<hash of sources>; it is reused while the hash is unchanged.
set -e
VARIANT=${1:-dbg}
REPO=${VERIF_REPO:-/repo}
ROOT=${VERIF_SCRATCH:-/var/tmp/pnc-verif}
mkdir -p "$ROOT"
# hash of every file that can influence the library build (tracked or not), excluding build products
H=$(cd "$REPO" && find src configure configure.ac Makefile.am Makefile.in m4 scripts \
      \( -name '*.o' -o -name '*.lo' -o -name '*.la' -o -name '.libs' -o -name '.deps' -o -name '*.log' -o -name '*.trs' \) -prune -o \
      -type f \( -name '*.c' -o -name '*.h' -o -name '*.m4' -o -name '*.in' -o -name '*.am' -o -name '*.y' -o -name '*.l' -o -name '*.cpp' -o -name '*.hpp' -o -name configure -o -name '*.ac' -o -name '*.sh' \) -print0 \
      | sort -z | xargs -0 sha1sum | sha1sum | cut -c1-16)
DIR="$ROOT/$VARIANT-$H"
LOCK="$ROOT/.lock-$VARIANT"
exec 9>"$LOCK"
flock 9
if [ -f "$DIR/.built" ]; then touch "$DIR"; echo "$DIR"; exit 0; fi
# remove stale copies of this variant (older than 90 minutes; newer ones may belong to a check running on
# another tree, e.g. a seeded change being tried)
for d in "$ROOT/$VARIANT-"*; do
  [ -d "$d" ] && [ "$d" != "$DIR" ] && [ -z "$(find "$d" -maxdepth 0 -mmin -90)" ] && rm -rf "$d"
done
rm -rf "$DIR"; mkdir -p "$DIR"
rsync -a --exclude='.git' --exclude='*.o' --exclude='*.lo' --exclude='*.la' --exclude='.libs' --exclude='.deps' \
      --exclude='*.log' --exclude='*.trs' --exclude='autom4te.cache' --exclude='config.status' --exclude='config.log' \
      "$REPO"/ "$DIR"/ 
cd "$DIR"
# never reuse configured state from the in-tree build
find . -name Makefile -not -path './test/*' -newer configure -delete 2>/dev/null || true
case "$VARIANT" in
  dbg) CF="-O1 -g -DPNETCDF_VERIF -Wno-error"; OPTS="--enable-debug --enable-burst-buffering --disable-static" ;;
  san) CF="-O1 -g -DPNETCDF_VERIF -Wno-error -fsanitize=address,undefined -fno-sanitize-recover=undefined -fno-omit-frame-pointer"; OPTS="--enable-debug --enable-burst-buffering --disable-static" ;;
  off) CF="-Wno-error"; OPTS="" ;;
  *) echo "unknown variant $VARIANT" >&2; exit 2 ;;
esac
LOG="$DIR/.build.log"
if [ "$VARIANT" = san ]; then export LDFLAGS="-fsanitize=address,undefined"; fi
if [ "$VARIANT" = off ]; then CONF="./configure"; else CONF="./configure --disable-fortran --disable-cxx"; fi
( $CONF $OPTS CFLAGS="$CF" CXXFLAGS="-Wno-error" > "$LOG" 2>&1 ) || { echo "configure failed, see $LOG" >&2; tail -20 "$LOG" >&2; exit 2; }
if [ "$VARIANT" = off ]; then
  ( make -j16 >> "$LOG" 2>&1 ) || { echo "make failed, see $LOG" >&2; tail -30 "$LOG" >&2; exit 2; }
else
  ( make -C src -j16 >> "$LOG" 2>&1 ) || { echo "make failed, see $LOG" >&2; tail -30 "$LOG" >&2; exit 2; }
fi
touch "$DIR/.built"
echo "$DIR"
