#!/usr/bin/env python3
"""Regenerates /verif/MANIFEST.json from the table below (one source of truth for what is claimed)."""
import json, os, sys

ROOT = os.path.dirname(os.path.dirname(os.path.abspath(__file__)))

MC = "model_checking"
COMMON_TRUST = ("Trusted: TLC; the Python ctypes driver (harness/pncdrv.py) records arguments/results faithfully; "
                "Open MPI on one node (shared-memory ranks); the transcription of the documentation into the spec. ")

CLAIMS = {
 "C01": dict(
  spec="Data.tla + Access_MC.tla (generator) + Trace_Data.tla",
  text="Data.tla models the logical content of every variable (element -> token) and the element set addressed by each access "
       "form (var/var1/vara/vars/varm/varn/vard, typed and flexible with derived MPI buffer types, collective and independent, "
       "split across 1-4 ranks). TLC generates behaviours over variables of 0..5 dimensions (fixed and record, every external type, "
       "CDF-1/2/5) including close/reopen; each is executed on the real library; TLC validates every returned read buffer and the "
       "independently decoded file after every call against the model (Trace_Data). Exhaustive within the bounded shapes of the "
       "generator in the thorough tier, sampled in the quick tier.",
  note="Shapes are bounded (extent <= 4 per dimension, <= 5 dimensions); tokens are small integers mapped to per-type values.",
  tech="TLA+ spec Data.tla: TLC-generated behaviours replayed on the library + TLC trace validation of read buffers and decoded file"),
 "C02": dict(
  spec="Data.tla + Data_MC.tla (design) + Nonblock_MC.tla (generator) + Trace_Data.tla",
  text="Data.tla has the pending-request queue with Post (iput/iget/bput, varn and multi-record forms), Wait/WaitAll on arbitrary "
       "subsets in arbitrary order, Cancel, and defines completion as the blocking call's effect (equivalence by construction of the "
       "model: Wait applies Put/Get of each completed request). TLC checks the design (ids distinct, statuses, queue coverage) and "
       "generates random posting/waiting schedules with no element written twice; the library executes them and TLC validates request "
       "ids, per-request statuses, read buffers, pending count, record count and the decoded file after every call. Two named "
       "deviations of the code (TailOnly, OverlapReadLoses) are recorded as open known findings via two-pass validation.",
  note="One to two ranks; element sets bounded by the generator's variable table.",
  tech="TLA+ spec Data.tla: TLC design check + TLC-generated schedules replayed on the library + TLC trace validation (two-pass for named deviations)"),
 "C03": dict(
  spec="File.tla + File_MC.tla + Trace_File.tla",
  text="File.tla models the dataset definition (dims, vars, attributes, fill switches), record count and data. After every call at "
       "which the file must be up to date (enddef, data-mode put_att/rename, each write, sync, close) the harness decodes the file with "
       "a decoder written from the CDF-1/2/5 grammar alone (harness/cdfdecode.py) and TLC requires: decoded schema/record count/data == "
       "model; layout rules on the decoded offsets (definition order, 4-byte alignment, no overlap, header precedes data, requested "
       "alignments honoured, lone record variable packed); the library's own inquiry of header size/extent, offsets and record size "
       "equals the file; a clobbered predecessor leaves nothing behind.",
  note="Decoder independence: cdfdecode.py shares no code with the library. Header sizes are those reachable with <= 4 dims/vars/atts and hints.",
  tech="TLA+ spec File.tla: TLC-generated definition/redefinition histories replayed on the library + TLC trace validation of the independently decoded file"),
 "C05": dict(
  spec="MP.tla + MP_MC.tla + Trace_MP.tla",
  text="MP.tla models N ranks sharing a record variable: per-rank record count, header count, pending queues, collective and independent "
       "puts, fill_rec, wait_all/wait, and every documented synchronisation call. TLC checks exhaustively (N<=3, MaxRec<=3) the invariants "
       "Coherent, Readable and the action property Monotone; simulated behaviours for 2-4 ranks are executed and every rank's "
       "ncmpi_inq_unlimdim, the decoded header field and the record data after each step are validated by TLC.",
  note="Steps are separated by barriers in the harness (atomic steps); 2-4 ranks on one node.",
  tech="TLA+ spec MP.tla: TLC exhaustive check of Coherent/Readable/Monotone + generated multi-rank behaviours replayed + TLC trace validation"),
 "C06": dict(
  spec="File.tla (Redef/Enddef/Abort, action property OldDataKept) + Trace_File.tla",
  text="File.tla's Redef saves schema and data; Enddef may grow/re-align the header, add fixed and record variables (changing the record "
       "size) and must keep every old element (OldDataKept, checked by TLC on the design); Abort in a redefinition restores the saved "
       "state, abort of a new file removes it. Generated histories with 1..4 records, header growth across alignment boundaries, "
       "v_minfree/h_minfree gaps, independent-mode appends before redef, 1-2 ranks are executed; TLC validates the decoded data after "
       "the redefinition and the byte digest after an aborted redefinition against the digest at redef.",
  note="File sizes stay small (KiB); data movement with the move-unit hook lowered so that multi-chunk, overlapping moves occur.",
  tech="TLA+ spec File.tla: TLC check of OldDataKept + generated redefinition/abort histories replayed + TLC trace validation of decoded data and file digests"),
 "C07": dict(
  spec="File.tla + File_MC.tla + Trace_File.tla",
  text="File.tla is the sequential reference model of the namespace (ordered dims/vars/attribute lists, every define/put/overwrite/rename/"
       "copy/delete with the documented error and precedence sets). TLC checks its invariants exhaustively for small bounds and generates "
       "(a) one behaviour per transition and (b) random walks, concretised with ASCII, multi-byte UTF-8 (NFD spellings) and hash-colliding "
       "names; after every call the harness dumps the complete schema through the inquiry API by id and by name for every name ever used, "
       "and TLC compares it to the model; the decoded header is compared whenever the file must be up to date.",
  note="Cross-file copy_att (two open files) is outside the single-file model; see DESIGN.md.",
  tech="TLA+ spec File.tla: TLC exhaustive check + per-transition and random-walk behaviours replayed + TLC trace validation of the full inquiry state"),
 "C08": dict(
  spec="MP.tla (CollPut/CollGet argument classes, Safe) + Trace_MP.tla",
  text="Every combination (bounded) of per-rank argument classes - valid, zero-length, each invalid kind - in collective put/get/wait_all "
       "on 2-3 ranks, safe mode off and on. TLC validates per-rank return codes, the data stored by the valid ranks, and that the per-rank "
       "sequences of MPI collective operations recorded by the PMPI shim are identical on all ranks; a rank that does not return within "
       "the watchdog is a rejected trace (deadlock).",
  note="The PMPI shim sees MPI collectives and MPI-IO collectives; point-to-point is not used by the code paths exercised.",
  tech="TLA+ spec MP.tla: generated per-rank argument-class combinations replayed on 2-3 ranks + TLC trace validation of return codes, data and PMPI-recorded collective sequences"),
 "C09": dict(
  spec="Convert.tla + Convert_MC.tla + Trace_Convert.tla",
  text="Convert.tla is the decision rule (NC_ECHAR iff exactly one side is text; NC_ERANGE iff some element unrepresentable; representable "
       "elements delivered exactly; others replaced by fill; CDF-1/2 signed-byte/unsigned-char exemption); TLC checks it for all class "
       "combinations. The check drives every (external type x memory type) pair, CDF-1/2/5, for put/get/put_att/get_att with boundary "
       "values of each type (min/max +-1, +-0.5 fractions, NaN, +-Inf, float-rounding neighbours); the exact expected value per element is "
       "computed with arbitrary-precision/IEEE arithmetic and TLC validates return code and every element.",
  note="Values whose representability is debatable (2^63, 2^64 as double) are excluded from reads that would depend on them.",
  tech="TLA+ spec Convert.tla: TLC check of the rule over all class combinations + TLC trace validation of every conversion performed by the library"),
 "C10": dict(
  spec="Config.tla + Config_MC.tla + Trace_Config.tla, and Data.tla / MP.tla / File.tla with their trace specs",
  text="Config.tla states the property relationally: the outcome of step k of a program is a function of (program, k) alone (action "
       "property Stable, checked by TLC). Programs generated by TLC from Access_MC, Nonblock_MC, MP_MC and File_MC are each executed under "
       "every configuration of a matrix (packing-buffer size, in-place swap on/off, safe mode, PNETCDF_HINTS environment form, name hash "
       "sizes 1/3/4096, header chunk hint, alignment hints, intra-node aggregation with 1-2 aggregators, 1-4 processes with the work divided "
       "differently). Every trace is validated by TLC against the configuration-free family specification (data read, logical file "
       "content, error codes), and for each (program, process count) the projected outcomes under all configurations are validated against "
       "Config.tla (return codes, statuses, ids, counts, schema must coincide).",
  note="One node (aggregation groups = ranks of the job); read buffers and variable data are compared with the model per configuration, not "
       "across configurations (never-written elements are undefined); effective-hint reporting is not checked.",
  tech="TLA+ specs Config.tla (cross-configuration stability) + Data/MP/File.tla: TLC-generated programs replayed under a configuration matrix + TLC trace validation"),
 "C11": dict(
  cat="fault_enumeration",
  spec="Fault.tla + Fault_MC.tla + Trace_Fault.tla",
  text="Fault.tla: one armed failure (rank, transfer position, MPI error class); the step in which it fires must return an error on that "
       "rank (or the completing wait must). Enumeration: every MPI-IO data-transfer position observed in a fault-free run of each of the "
       "programs (header write, numrecs update, redef data movement, fill, blocking/nonblocking data read/write, flush at wait/close) x "
       "rank x error class (IO, NO_SPACE, QUOTA, ACCESS, ...), injected by the PMPI shim; TLC validates each faulted trace.",
  note="Failures are injected at the PMPI boundary (count-0 transfer + error class); real media errors are not produced.",
  tech="TLA+ spec Fault.tla: exhaustive fault enumeration at the PMPI boundary + TLC trace validation"),
 "C13": dict(
  spec="Data.tla (Attach/Detach/BPut/Wait/Cancel, invariant UsageExact) + Trace_Data.tla",
  text="TLC checks UsageExact (usage == bytes of pending buffered puts) on the design. Generated schedules with attach/detach/bput/iput/"
       "iget/wait/cancel are executed with guard zones around every caller buffer, derived buffer types with gaps, byte-swapped external "
       "types and in-place swap hints; TLC validates usage/size/return codes after every call, that put buffers are byte-identical after "
       "the call/wait/cancel returns, that reads touch only selected bytes, and that bput data was captured at posting.",
  note="Guard zones are 64 bytes each side; gaps of derived types are checked byte by byte.",
  tech="TLA+ spec Data.tla: TLC check of UsageExact + generated schedules replayed + TLC trace validation of buffer digests and usage"),
 "C14": dict(
  spec="Modes.tla + Modes_MC.tla + Trace_Modes.tla",
  text="Modes.tla is checked exhaustively by TLC (all reachable mode/permission states from created, opened-writable and opened-read-only "
       "files; invariants TypeOK/ReadOnlySafe/BputNeedsBuffer, action property OnlyChangers). The same state graph generates one "
       "implementation execution per (source state, call) plus random walks; every recorded event (return code, dispatcher and driver mode "
       "flags, inquiry results, pending requests, file digest) is validated by TLC against Trace_Modes.tla.",
  note="Hook 2 (ncmpi_inq_verif_state) reports the flag words faithfully; one rank, safe mode off.",
  tech="TLA+ spec Modes.tla: TLC exhaustive check + TLC-generated behaviours replayed on the library + TLC trace validation"),
 "C15": dict(
  spec="Data.tla (SubErrs, ReqErrs) + Trace_Data.tla",
  text="Every (start,count,stride[,imap]) tuple within and one beyond small shapes, put and get, fixed and record variables, all forms: "
       "Data.tla!SubErrs gives the set of admissible documented errors with precedence; TLC validates the code and, on the independently "
       "decoded file after each request, that rejected/zero-length requests change nothing and accepted ones change only the addressed "
       "elements (all other elements of all variables and the header apart from the record count are compared).",
  note="Bounded shapes (extent <= 3).",
  tech="TLA+ spec Data.tla: exhaustive enumeration of request tuples over small shapes + TLC trace validation of return code and decoded file"),
 "C16": dict(
  spec="File.tla (fill switches, Enddef fill, FillRec) + Trace_File.tla",
  text="File.tla models the fill switch of each variable (dataset mode at definition, set_fill, def_var_fill, _FillValue attribute) and "
       "which variables Enddef fills (new ones that want it: fixed entirely, record for existing records). Generated histories incl. "
       "redefinitions that add filled variables to files with data; TLC validates reads and the decoded file: unwritten elements equal the "
       "_FillValue attribute if present else the type default, explicitly filled records read as fill, old data intact.",
  note="All external types; 1-2 ranks.",
  tech="TLA+ spec File.tla: generated define/fill/redefine histories replayed + TLC trace validation of reads and decoded file"),
 "C17": dict(
  spec="Files.tla + Files_MC.tla + Trace_Files.tla",
  text="Files.tla models the id table (allocation of the lowest free id, reuse, NC_MAX_NFILES limit, stale ids, independence of open files). "
       "TLC checks it exhaustively and generates behaviours; the library executes them (also up to the real table size in Trace_Files_big); "
       "TLC validates ids, return codes, per-file content and, when the last file is closed, the library's heap/MPI-object balances (PMPI shim "
       "object counters, debug-malloc report).",
  note="Heap balance relies on --enable-debug's allocation tracking and the shim's MPI object counters.",
  tech="TLA+ spec Files.tla: TLC exhaustive check + generated open/close/abort behaviours replayed + TLC trace validation incl. resource balances"),
 "C18": dict(
  spec="Limits.tla + Wide.tla (exact arithmetic on 4 limbs) + Limits_MC.tla + Trace_Limits.tla",
  text="Limits.tla states the per-format size rules (per-variable limits 2^31-4 / 2^32-4 with the last-variable exceptions, begins below "
       "2^31 in CDF-1, every first-record byte below 2^63, def_dim limits) and the byte offset of every element in exact wide arithmetic. "
       "TLC enumerates all 3330 schemas of 1-3 fixed/record variables over the size classes just below / at / just above every threshold "
       "and checks the rules' consistency (an outright accepted schema has a layout meeting every layout requirement, a rejected one has "
       "none); each schema is replayed on the library and TLC validates the def_dim/def_var/enddef codes and the reported layout; for "
       "accepted schemas elements and 2x6 blocks on both sides of 2^31 and 2^32 (bytes and element indices), first/last elements and "
       "records 0/1 are written into a sparse file: after every put the non-zero bytes of the file (found with SEEK_DATA) must be exactly "
       "the bytes the specification places at the offsets it computes, and every get must return those bytes (zeros elsewhere).",
  note="Header sizes assumed within [32, 4096] bytes; elements beyond 2 TiB not touched; one process.",
  tech="TLA+ spec Limits.tla (wide arithmetic): TLC exhaustive enumeration of threshold schemas + replay + TLC trace validation of return codes, layout and sparse-file byte positions"),
}

NA = {
 "C04": "check not built yet: the encoder for specification-valid foreign layouts exists (harness/cdfdecode.py encode) but no spec-bound check is registered",
 "C12": "check not built yet (planned: Data/MP behaviours replayed with the burst-buffer driver, Trace_MP visibility rules)",
 "C19": "memory safety is not a property of the abstract state a TLA+ specification describes; planned as the sanitizer build running the behaviours generated for the other properties plus mutated files (see DESIGN.md section 9)",
 "C20": "check not built yet (planned: utilities run on files produced by File behaviours, outputs compared with the model)",
}


def main():
    props = [json.loads(l)["id"] for l in open(os.path.join(ROOT, "properties.jsonl"))]
    checks = []
    for pid in props:
        if pid not in CLAIMS:
            continue
        c = CLAIMS[pid]
        checks.append({
            "property_id": pid,
            "quick_cmd": "bin/check %s --quick" % pid,
            "thorough_cmd": "bin/check %s --thorough" % pid,
            "evidence_file": "evidence/%s.json" % pid,
            "replay_cmd_template": "bin/check %s --replay {path}" % pid,
            "engine": "tlc",
            "level_claimed": {"category": c.get("cat", MC), "text": c["text"] + " Specs: " + c["spec"] + ".",
                              "design_ref": "7 (%s)" % pid},
            "level_note": COMMON_TRUST + c["note"],
            "technique": c["tech"],
        })
    claimed = [c["property_id"] for c in checks]
    m = {
        "version": 1,
        "setup_cmd": "bin/setup.sh",
        "hooks": {
            "guard": "PNETCDF_VERIF",
            "enable": "bin/build.sh dbg: rsync of /repo's working tree to /var/tmp/pnc-verif/dbg-<hash>, ./configure --enable-debug "
                      "--enable-burst-buffering --disable-static CFLAGS='-O1 -g -DPNETCDF_VERIF', make -C src",
            "baseline_off_cmd": "bin/baseline_off.sh",
            "source_commits": ["16546400", "93757992", "e96568d9"],
            "add_only": True,
        },
        "engines": [
            {"name": "tlc", "path": "/opt/veriftools/tla/tla2tools.jar", "serves_properties": claimed,
             "kind_free_text": "TLC 1.8.0: exhaustive design checks (spec/*_MC.tla), behaviour generation (-simulate / BFS with an "
                               "ACTION_CONSTRAINT emitter), trace validation of implementation traces (spec/Trace_*.tla)"},
            {"name": "pncdrv", "path": "harness/pncdrv.py", "serves_properties": claimed,
             "kind_free_text": "Python ctypes script interpreter driving the real libpnetcdf.so (rebuilt from /repo) on 1..N MPI ranks; "
                               "one NDJSON event per call with arguments, return code, outputs and observations"},
            {"name": "pmpi_shim", "path": "harness/pmpi_shim.c", "serves_properties": [p for p in ("C08", "C11", "C17") if p in claimed],
             "kind_free_text": "LD_PRELOAD PMPI interposer: records MPI collectives and MPI-IO transfers per rank, MPI object balances, "
                               "injects MPI-IO failures by position and error class"},
            {"name": "cdfdecode", "path": "harness/cdfdecode.py", "serves_properties": [p for p in ("C01", "C02", "C03", "C05", "C06", "C07", "C15", "C16") if p in claimed],
             "kind_free_text": "decoder/encoder of classic CDF-1/2/5 files written from the format grammar only (the independent observer of file content)"},
        ],
        "checks": checks,
        "notes": "All verdicts come from TLC evaluating spec/*.tla on traces recorded from a library rebuilt from /repo's working tree "
                 "(bin/build.sh; VERIF_REPO overrides the source tree for seeded-change experiments only). known_findings.json lists genuine "
                 "defects: 'fixed' entries suppress nothing, 'open' entries are printed as KNOWN-FINDING. Generated by bin/mkmanifest.py.",
        "not_applicable": [{"property_id": p, "reason": NA[p]} for p in props if p not in CLAIMS],
    }
    json.dump(m, open(os.path.join(ROOT, "MANIFEST.json"), "w"), indent=1)
    try:
        import jsonschema
        jsonschema.validate(m, json.load(open("/root/.vp/MANIFEST.schema.json")))
        print("MANIFEST.json valid; claimed:", " ".join(claimed))
    except ImportError:
        print("written (jsonschema not importable here)")


if __name__ == "__main__":
    main()
