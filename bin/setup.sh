#!/bin/bash
# one-time setup after a fresh restore (offline): warm the scratch build and parse the specs
set -e
cd "$(dirname "$0")/.."
mkdir -p /var/tmp/pnc-verif evidence
bin/build.sh dbg > /dev/null
for f in spec/*.tla; do ( cd spec && tla-sany "$(basename "$f")" > /dev/null 2>&1 ) || { echo "SANY failed on $f"; exit 1; }; done
python3 -c "import sys; sys.path.insert(0,'lib'); import vlib; vlib.shim_path()" 2>/dev/null || true
echo setup ok
