#!/bin/bash
# confirm_seed.sh <dir with mutX.diff/demo_X.c> <X> [np]  -> writes <dir>/confirm_X.json
# Confirms a seeded change in a scratch copy of /repo: demo passes on the pristine tree,
# the patched tree still passes `make check`, and the demo fails on the patched tree.
D=$1; M=$2; NP=${3:-2}
W=/tmp/confirm/$(basename $D)-$M
rm -rf $W; mkdir -p $W
rsync -a --exclude='.git' --exclude='*.o' --exclude='*.lo' --exclude='*.la' --exclude='.libs' --exclude='.deps' --exclude='*.log' --exclude='*.trs' --exclude='config.status' /repo/ $W/
cd $W
( ./configure --disable-fortran CFLAGS="-O1 -Wno-error" CXXFLAGS="-Wno-error" > conf.log 2>&1 && make -j6 > make.log 2>&1 ) || { echo '{"ok":false,"why":"baseline build failed"}' > $D/confirm_$M.json; exit 1; }
mpicc -I src/include $D/demo_$M.c -o demo_$M src/libs/.libs/libpnetcdf.a -lm > demo.log 2>&1 || { echo '{"ok":false,"why":"demo compile failed"}' > $D/confirm_$M.json; exit 1; }
mkdir -p run; cd run
timeout 120 mpiexec --allow-run-as-root --oversubscribe -n $NP ../demo_$M > ../demo_base.out 2>&1; B=$?
cd ..
patch -p1 < $D/mut$M.diff > patch.log 2>&1 || { echo '{"ok":false,"why":"patch failed"}' > $D/confirm_$M.json; exit 1; }
make -j6 > make2.log 2>&1 || { echo '{"ok":false,"why":"mutant build failed"}' > $D/confirm_$M.json; exit 1; }
mpicc -I src/include $D/demo_$M.c -o demo_$M src/libs/.libs/libpnetcdf.a -lm >> demo.log 2>&1
cd run; timeout 120 mpiexec --allow-run-as-root --oversubscribe -n $NP ../demo_$M > ../demo_mut.out 2>&1; Mrc=$?; cd ..
make -k check > check.log 2>&1
NF=$(grep -cE "^(FAIL|ERROR):" check.log); NPASS=$(grep -cE "^PASS:" check.log)
OK=false; if [ $B -eq 0 ] && [ $Mrc -ne 0 ] && [ $NF -eq 0 ] && [ $NPASS -ge 70 ]; then OK=true; fi
echo "{\"ok\":$OK,\"demo_base_rc\":$B,\"demo_mut_rc\":$Mrc,\"check_fail\":$NF,\"check_pass\":$NPASS,\"np\":$NP}" > $D/confirm_$M.json
cat $D/confirm_$M.json
cd /; rm -rf $W
