#!/bin/bash
# run_all.sh [seed] [tier]  -- every claimed check once, sequentially (development tool; prints one summary line per check)
SEED=${1:-0}; TIER=${2:---quick}
cd /verif
for id in $(python3 -c "import json;print(' '.join(c['property_id'] for c in json.load(open('MANIFEST.json'))['checks']))"); do
  t0=$(date +%s)
  VERIF_SEED=$SEED bin/check $id $TIER > /var/tmp/runall_${id}_$SEED.log 2>&1; rc=$?
  echo "$id seed=$SEED rc=$rc $(( $(date +%s) - t0 ))s $(grep -c '^VIOLATION' /var/tmp/runall_${id}_$SEED.log) violations, $(grep -c '^KNOWN-FINDING' /var/tmp/runall_${id}_$SEED.log) known"
done
