#!/bin/bash
# Runs the repository's own test suite (make check) on a scratch copy of /repo's current
# working tree built WITHOUT -DPNETCDF_VERIF and with the repository's default options.
set -e
cd "$(dirname "$0")/.."
DIR=$(bin/build.sh off)
cd "$DIR"
make -k check 2>&1 | tee "$DIR/.check.log" | grep -E "^(PASS|FAIL|XFAIL|ERROR|# (TOTAL|PASS|FAIL|ERROR))" || true
if grep -qE "^(FAIL|ERROR):" "$DIR/.check.log"; then echo "baseline: FAILURES"; exit 1; fi
if ! grep -q "^# PASS" "$DIR/.check.log"; then echo "baseline: no results"; exit 2; fi
echo "baseline: OK"
