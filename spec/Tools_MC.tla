------------------------------ MODULE Tools_MC ------------------------------
(* bounded instance: three files over two contents and two layouts; the diff verdict is an equivalence relation that
   ignores the layout *)
EXTENDS Tools
C(n) == [fmt |-> 1, numrecs |-> 0, dims |-> <<>>, gatts |-> <<>>, vars |-> <<[name |-> "v", xtype |-> "int", dimids |-> <<>>, atts |-> <<>>, data |-> <<n>>, isnew |-> FALSE]>>]
Next == \/ \E id \in {"a", "b", "c"}, n \in {1, 2}, bg \in {<<100>>, <<200>>} : Load(id, C(n), TRUE, bg)
        \/ \E x \in DOMAIN files, y \in DOMAIN files : \E s \in BOOLEAN : Diff(x, y, s)
Spec == Init /\ [][Next]_tvars_
Same(x, y) == LogicalEq(files[x].content, files[y].content)
Equivalence == \A x, y, z \in DOMAIN files : Same(x, x) /\ (Same(x, y) => Same(y, x)) /\ (Same(x, y) /\ Same(y, z) => Same(x, z))
LayoutFree == \A x, y \in DOMAIN files : files[x].content = files[y].content => Same(x, y)
=============================================================================
