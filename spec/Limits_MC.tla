----------------------------- MODULE Limits_MC -----------------------------
(* Bounded instance of Limits: every schema of 1..MaxVars variables whose kind is fixed/record and whose size is taken from
   the classes just below / at / just above each threshold of the format; design check of the rules' consistency and
   generator of the schemas (with the specification's verdict) for the implementation. *)
EXTENDS Limits, Json, TLCExt

CONSTANTS MaxVars

P2(k) == IF k < 20 THEN <<2^k, 0, 0, 0>> ELSE IF k < 40 THEN <<0, 2^(k - 20), 0, 0>> ELSE IF k < 60 THEN <<0, 0, 2^(k - 40), 0>> ELSE <<0, 0, 0, 2^(k - 60)>>
V(isrec, xsz, n0, L) == [isrec |-> isrec, xsz |-> xsz, n0 |-> n0, L |-> L]

Classes(f) == IF f = 1 THEN {"small", "half", "at", "above", "huge"}
              ELSE IF f = 2 THEN {"small", "half", "at", "above", "huge"}
              ELSE {"small", "half", "wide32", "at", "above"}
(* the concrete variable of a size class *)
ClassVar(f, isrec, cls) ==
    CASE cls = "small" -> V(isrec, 4, 1, WSmall(10))
      [] cls = "half"  -> V(isrec, 4, 1, IF f = 1 THEN P2(28) ELSE P2(29))               \* 2^30 (CDF-1) / 2^31 bytes
      [] cls = "at"    -> V(isrec, IF f = 5 THEN 8 ELSE 4, 1,
                            IF f = 1 THEN WSub1(P2(29)) ELSE IF f = 2 THEN WSub1(P2(30))
                            ELSE <<0, 1048575, 1048575, 0>>)       \* limit exactly; CDF-5: 8*(2^60-2^20) = 2^63-2^23, the header still fits
      [] cls = "above" -> V(isrec, IF f = 5 THEN 8 ELSE 4, 1, IF f = 1 THEN P2(29) ELSE IF f = 2 THEN P2(30) ELSE P2(60))
      [] cls = "huge"  -> V(isrec, 8, 4, P2(30))                                          \* 2^35 bytes
      [] cls = "wide32" -> V(isrec, 1, 4, WAdd(P2(32), WSmall(16)))                       \* [4][2^32+16] bytes

Kinds == {TRUE, FALSE}
RECURSIVE Seqs(_, _)
Seqs(S, n) == IF n = 0 THEN {<<>>} ELSE {Append(s, x) : s \in Seqs(S, n - 1), x \in S}
Schemas(f) == UNION {Seqs({ClassVar(f, k, c) : k \in Kinds, c \in Classes(f)}, n) : n \in 1..MaxVars}

Gen == /\ mode = "closed"
       /\ \E f \in {1, 2, 5} : \E vs \in Schemas(f) :
            /\ fmt' = f /\ vars' = vs /\ mode' = "def"
            /\ hist' = <<[fmt |-> f, vars |-> vs, rc |-> EnddefRc(f, vs)]>>
       /\ UNCHANGED <<begins, recsize, written>>
Next == Gen
Spec == Init /\ [][Next]_vv

(* the layout every netCDF writer produces: header, fixed-size variables, record variables, each padded *)
Natural(vs, h) == [i \in 1..Len(vs) |-> WAdd(WSmall(h), BaseOff(vs, i))]
AsSeq(f) == <<>> \o f
(* consistency of the rules: a definition the rules accept outright has a layout that satisfies every layout requirement,
   a definition rejected for its begins has none with a header of at least HLo bytes *)
RulesConsistent ==
    mode = "def" =>
       /\ EnddefRc(fmt, vars) = {"NC_NOERR"} => LayoutOK(fmt, vars, AsSeq(Natural(vars, HHi)), WSum(vars, RecIdx(vars)))
       /\ (VlenOK(fmt, vars) /\ MustFailBegin(fmt, vars)) => ~LayoutOK(fmt, vars, AsSeq(Natural(vars, HLo)), WSum(vars, RecIdx(vars)))
WideOK == mode = "def" => \A i \in 1..Len(vars) : IsWide(VSize(vars[i])) /\ IsWide(BaseOff(vars, i))

EmitEnd == IF hist' # <<>> THEN PrintT("EMIT " \o ToJson(hist'[1])) ELSE TRUE
=============================================================================
