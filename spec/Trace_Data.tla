----------------------------- MODULE Trace_Data -----------------------------
(* Trace validation for Data (C01, C02, C13, C15, single-process part of C05): every data-access,
   wait, cancel and buffer call recorded from the library must be the step Data allows for the
   arguments actually used, and what was observed afterwards -- read buffers, request ids and statuses,
   pending-request count, buffer usage, record count, and the bytes of the file decoded independently
   -- must equal the specification's state. *)
EXTENDS Data, Json, IOUtils

CONSTANT OverlapReadLoses   \* named deviation of the implementation (known finding): when read requests completed by
                            \* one wait address the same element, only one of them receives it.
                            \* FALSE = the property (reads may overlap each other freely)

VARIABLES l, indep,        \* position in the trace; the file is in independent data mode
          hdr              \* digest of the header bytes (record-count field excluded) last seen; "none" before
Tr == ndJsonDeserialize(IOEnv.TRACE)
tvars == <<vars, l, indep, hdr>>

TraceVarTab == Tr[1].vars

(* diagnostics: which conjunct rejected the event at position l (printed only on failure) *)
Chk(name, c) == IF c THEN TRUE ELSE (PrintT(<<"FAILED", name, l>>) /\ FALSE)
(* C15: no data-access call, accepted or rejected, changes a byte of the header *)
HdrStep(ev) == IF "hdrsha" \in DOMAIN ev.obs
                 THEN Chk("header unchanged", hdr = "none" \/ ev.obs.hdrsha = hdr) /\ hdr' = ev.obs.hdrsha
                 ELSE hdr' = hdr

OnesFor(v) == Ones(Rank(v))
Zeros(v) == AsSeq([i \in 1..Rank(v) |-> 0])
Whole(v) == AsSeq([i \in 1..Rank(v) |-> IF i = 1 /\ IsRec(v) THEN numrecs ELSE Shape(v)[i]])
Sub(s, c, st) == [start |-> s, count |-> c, stride |-> st]

(* the request denoted by the arguments of a put/get event *)
Req(a) ==
    LET v == a.v IN
    [v |-> v, subs |->
       CASE a.form = "var"  -> <<Sub(Zeros(v), Whole(v), OnesFor(v))>>
         [] a.form = "var1" -> <<Sub(a.start, OnesFor(v), OnesFor(v))>>
         [] a.form \in {"vara", "vard"} -> <<Sub(a.start, a.count, OnesFor(v))>>
         [] a.form \in {"vars", "varm"} ->
               <<Sub(a.start, a.count, IF "stride" \notin DOMAIN a THEN OnesFor(v) ELSE a.stride)>>
         [] a.form = "varn" ->
               AsSeq([i \in 1..Len(a.starts) |->
                   Sub(a.starts[i], IF "counts" \notin DOMAIN a THEN OnesFor(v) ELSE a.counts[i], OnesFor(v))])]

(* values come from JSON and may be numbers or strings ("none", "i:<big>", "f:<x>"): compare printed forms *)
Match(tok, val) == tok = U \/ ToString(tok) = ToString(val)
MatchSeq(toks, vals) == Len(toks) = Len(vals) /\ \A i \in 1..Len(toks) : Match(toks[i], vals[i])

Kind(ev) == IF "kind" \notin DOMAIN ev.a THEN "blocking"
            ELSE IF ev.a.kind = "b" THEN "bput" ELSE IF ev.e = "put" THEN "iput" ELSE "iget"

(* observations common to every event, against the primed state *)
ObsOK(ev) ==
    LET o == ev.obs IN
    /\ Chk("nreqs", ("nreqs" \in DOMAIN o) => o.nreqs = Len(Q'))
    /\ Chk("numrecs", ("numrecs" \in DOMAIN o) => o.numrecs = numrecs')
    /\ Chk("abuf", ("abuf" \in DOMAIN o) =>
          IF abuf'.size < 0 THEN o.abuf = [rc |-> "NC_ENULLABUF"]
          ELSE o.abuf.size = abuf'.size /\ o.abuf.usage = abuf'.used)
    /\ ("disk" \in DOMAIN o) =>
          /\ Chk("disk.decodable", "error" \notin DOMAIN o.disk)
          /\ Chk("disk.wellformed", o.disk.exists = 1 /\ o.disk.problems = <<>>)
          /\ Chk("disk.numrecs", (~indep') => o.disk.numrecs = numrecs')      \* collective mode: the header is up to date
          /\ Chk("disk.data", \A v \in 0..(NV - 1) :
               LET dd == o.disk.vars[v + 1].data IN
               \A i \in 1..Cap(v) :
                  IF i <= Len(dd) THEN Match(data'[v + 1][i], dd[i])
                  ELSE (data'[v + 1][i] = U \/ indep'))   \* a written element must be inside the file

TReset ==
    /\ Tr[l].e \in {"Reset", "Header"}
    /\ data' = AsSeq([v \in 1..NV |-> AsSeq([i \in 1..Cap(v - 1) |-> U])])
    /\ numrecs' = 0 /\ Q' = <<>> /\ abuf' = [size |-> -1, used |-> 0] /\ slots' = <<>> /\ hist' = <<>>
    /\ indep' = FALSE /\ hdr' = "none" /\ l' = l + 1

TSetup ==
    /\ Tr[l].e \notin {"Reset", "Header"} /\ "setup" \in DOMAIN Tr[l].a
    /\ Tr[l].rc = "NC_NOERR"
    /\ l' = l + 1 /\ UNCHANGED <<vars, indep, hdr>>

TModeSwitch ==
    /\ Tr[l].e \in {"begin_indep", "end_indep"} /\ "setup" \notin DOMAIN Tr[l].a
    /\ Tr[l].rc = "NC_NOERR"
    /\ indep' = (Tr[l].e = "begin_indep")
    /\ UNCHANGED vars
    /\ ObsOK(Tr[l])
    /\ HdrStep(Tr[l])
    /\ l' = l + 1

(* close and reopen: nothing the model tracks changes; the file comes back in collective data mode *)
TReopen ==
    /\ Tr[l].e \in {"close", "open"} /\ "setup" \notin DOMAIN Tr[l].a
    /\ Tr[l].rc = "NC_NOERR" /\ Q = <<>>
    /\ indep' = FALSE
    /\ UNCHANGED vars
    /\ ObsOK(Tr[l])
    /\ HdrStep(Tr[l])
    /\ l' = l + 1

TAccess ==
    /\ Tr[l].e \in {"put", "get"} /\ "setup" \notin DOMAIN Tr[l].a
    /\ UNCHANGED indep
    /\ LET ev == Tr[l]  a == ev.a  r == Req(a)  k == Kind(ev) IN
         /\ CASE k = "blocking" /\ ev.e = "put" ->
                    /\ BPut(r, a.vals, ev.rc)
                    /\ Chk("bufsame", ev.out.bufsame)                                  \* the caller's buffer is as it was
              [] k = "blocking" /\ ev.e = "get" ->
                    /\ BGet(r, ev.rc)
                    /\ Chk("guard", ev.out.guard)                                  \* nothing outside the selected elements
                    /\ Chk("get.buf", ev.rc = "NC_NOERR" =>
                           LET exp == BGetExpect(r)  el == Elems(r) IN
                           /\ Len(exp) = Len(ev.out.buf)
                           /\ \A i \in 1..Len(exp) : Match(exp[i], ev.out.buf[i])
                                  \/ (OverlapReadLoses /\ \E j \in 1..Len(el) : j # i /\ el[j] = el[i]))
              [] OTHER ->
                    /\ Post(k, a.req, r, IF k = "iget" THEN <<>> ELSE a.vals, ev.rc)
                    /\ Chk("post.id", (ev.rc = "NC_NOERR") => (ev.out.isnull = (Len(Elems(r)) = 0)))
         /\ ObsOK(ev)
    /\ HdrStep(Tr[l])
    /\ l' = l + 1

(* labels named by a wait/cancel event *)
Named(a) ==
    IF "special" \in DOMAIN a
      THEN CASE a.special = "ALL"     -> Labels
             [] a.special = "GET_ALL" -> {Q[i].lab : i \in {j \in 1..Len(Q) : Q[j].kind = "iget"}}
             [] a.special = "PUT_ALL" -> {Q[i].lab : i \in {j \in 1..Len(Q) : Q[j].kind # "iget"}}
      ELSE {a.reqs[i] : i \in 1..Len(a.reqs)} \cap Labels

TWait ==
    /\ Tr[l].e \in {"wait", "cancel"} /\ "setup" \notin DOMAIN Tr[l].a
    /\ UNCHANGED indep
    /\ LET ev == Tr[l]  a == ev.a  named == Named(a)  sel == Sel(named) IN
         /\ IF ev.e = "wait" THEN Wait(named, ev.rc) ELSE Cancel(named, ev.rc)
         \* every named id comes back as the null request with its own status
         /\ Chk("ids/statuses", ("ids" \in DOMAIN ev.out) =>
               /\ ev.out.allnull
               /\ \A i \in 1..Len(ev.out.st) : ev.out.st[i] = "NC_NOERR")
         \* completed reads delivered the data of the state after the wait; buffers of completed
         \* writes are as the caller left them; requests not named are untouched
         /\ Chk("buffers", \A i \in 1..Len(sel) :
               IF sel[i].kind = "iget"
                 THEN /\ ev.out.gbufs[sel[i].lab].guard
                      /\ ev.e = "wait" =>
                           LET exp == GetExpectAfter(sel[i])
                               el == Elems(sel[i].r)
                               others == UNION {{Elems(sel[j].r)[k] : k \in 1..Len(Elems(sel[j].r))} :
                                                  j \in {m \in 1..Len(sel) : m # i /\ sel[m].kind = "iget" /\ sel[m].r.v = sel[i].r.v}}
                               got == ev.out.gbufs[sel[i].lab].buf
                           IN  /\ Len(got) = Len(exp)
                               /\ \A k \in 1..Len(exp) : Match(exp[k], got[k]) \/ (OverlapReadLoses /\ el[k] \in others)
                 ELSE ev.out.bufsame[sel[i].lab])
         /\ ObsOK(ev)
    /\ HdrStep(Tr[l])
    /\ l' = l + 1

TBuffer ==
    /\ Tr[l].e \in {"buffer_attach", "buffer_detach"} /\ "setup" \notin DOMAIN Tr[l].a
    /\ UNCHANGED indep
    /\ IF Tr[l].e = "buffer_attach" THEN Attach(Tr[l].a.size, Tr[l].rc) ELSE Detach(Tr[l].rc)
    /\ ObsOK(Tr[l])
    /\ HdrStep(Tr[l])
    /\ l' = l + 1

TNext == l <= Len(Tr) /\ (TReset \/ TSetup \/ TReopen \/ TModeSwitch \/ TAccess \/ TWait \/ TBuffer)
TInit == l = 1 /\ indep = FALSE /\ hdr = "none" /\ Init
TraceSpec == TInit /\ [][TNext]_tvars

TraceAccepted ==
    LET n == TLCGet("stats").diameter - 1 IN
    /\ PrintT(<<"TRACE_MATCHED", n>>)
    /\ n = Len(Tr)
=============================================================================
