----------------------------- MODULE Config_MC -----------------------------
(* bounded instance: 2 configurations, 2 steps, 2 outcomes: Stable holds for every behaviour *)
EXTENDS Config
Next == NewProgram \/ \E c \in {"c0", "c1"}, k \in {"1", "2"}, o \in {"x", "y"} : Observe(c, k, o)
Spec == Init /\ [][Next]_<<ref, seen>>
=============================================================================
