---- MODULE Modes_MC_TTrace_1791014665 ----
EXTENDS Sequences, Modes_MC, TLCExt, Toolbox, Naturals, TLC

_expression ==
    LET Modes_MC_TEExpression == INSTANCE Modes_MC_TEExpression
    IN Modes_MC_TEExpression!expression
----

_trace ==
    LET Modes_MC_TETrace == INSTANCE Modes_MC_TETrace
    IN Modes_MC_TETrace!trace
----

_inv ==
    ~(
        TLCGet("level") = Len(_TETrace)
        /\
        fillm = ("NOFILL")
        /\
        xdim = (FALSE)
        /\
        mode = ("indep")
        /\
        xatt = (FALSE)
        /\
        hist = (<<[c |-> [c |-> "start", s |-> "openrw"], rc |-> "NC_NOERR"], [c |-> [c |-> "begin_indep"], rc |-> "NC_NOERR"], [c |-> [c |-> "attach"], rc |-> "NC_NOERR"], [c |-> [c |-> "bput"], rc |-> "NC_NOERR"]>>)
        /\
        vname = ("fv")
        /\
        xvar = (FALSE)
        /\
        exists = (TRUE)
        /\
        ga = (TRUE)
        /\
        fresh = (FALSE)
        /\
        ro = (FALSE)
        /\
        pend = ({"pb"})
        /\
        abuf = (TRUE)
    )
----

_init ==
    /\ fillm = _TETrace[1].fillm
    /\ fresh = _TETrace[1].fresh
    /\ xatt = _TETrace[1].xatt
    /\ xvar = _TETrace[1].xvar
    /\ mode = _TETrace[1].mode
    /\ exists = _TETrace[1].exists
    /\ pend = _TETrace[1].pend
    /\ ro = _TETrace[1].ro
    /\ hist = _TETrace[1].hist
    /\ ga = _TETrace[1].ga
    /\ abuf = _TETrace[1].abuf
    /\ xdim = _TETrace[1].xdim
    /\ vname = _TETrace[1].vname
----

_next ==
    /\ \E i,j \in DOMAIN _TETrace:
        /\ \/ /\ j = i + 1
              /\ i = TLCGet("level")
        /\ fillm  = _TETrace[i].fillm
        /\ fillm' = _TETrace[j].fillm
        /\ fresh  = _TETrace[i].fresh
        /\ fresh' = _TETrace[j].fresh
        /\ xatt  = _TETrace[i].xatt
        /\ xatt' = _TETrace[j].xatt
        /\ xvar  = _TETrace[i].xvar
        /\ xvar' = _TETrace[j].xvar
        /\ mode  = _TETrace[i].mode
        /\ mode' = _TETrace[j].mode
        /\ exists  = _TETrace[i].exists
        /\ exists' = _TETrace[j].exists
        /\ pend  = _TETrace[i].pend
        /\ pend' = _TETrace[j].pend
        /\ ro  = _TETrace[i].ro
        /\ ro' = _TETrace[j].ro
        /\ hist  = _TETrace[i].hist
        /\ hist' = _TETrace[j].hist
        /\ ga  = _TETrace[i].ga
        /\ ga' = _TETrace[j].ga
        /\ abuf  = _TETrace[i].abuf
        /\ abuf' = _TETrace[j].abuf
        /\ xdim  = _TETrace[i].xdim
        /\ xdim' = _TETrace[j].xdim
        /\ vname  = _TETrace[i].vname
        /\ vname' = _TETrace[j].vname

\* Uncomment the ASSUME below to write the states of the error trace
\* to the given file in Json format. Note that you can pass any tuple
\* to `JsonSerialize`. For example, a sub-sequence of _TETrace.
    \* ASSUME
    \*     LET J == INSTANCE Json
    \*         IN J!JsonSerialize("Modes_MC_TTrace_1791014665.json", _TETrace)

=============================================================================

 Note that you can extract this module `Modes_MC_TEExpression`
  to a dedicated file to reuse `expression` (the module in the 
  dedicated `Modes_MC_TEExpression.tla` file takes precedence 
  over the module `Modes_MC_TEExpression` below).

---- MODULE Modes_MC_TEExpression ----
EXTENDS Sequences, Modes_MC, TLCExt, Toolbox, Naturals, TLC

expression == 
    [
        \* To hide variables of the `Modes_MC` spec from the error trace,
        \* remove the variables below.  The trace will be written in the order
        \* of the fields of this record.
        fillm |-> fillm
        ,fresh |-> fresh
        ,xatt |-> xatt
        ,xvar |-> xvar
        ,mode |-> mode
        ,exists |-> exists
        ,pend |-> pend
        ,ro |-> ro
        ,hist |-> hist
        ,ga |-> ga
        ,abuf |-> abuf
        ,xdim |-> xdim
        ,vname |-> vname
        
        \* Put additional constant-, state-, and action-level expressions here:
        \* ,_stateNumber |-> _TEPosition
        \* ,_fillmUnchanged |-> fillm = fillm'
        
        \* Format the `fillm` variable as Json value.
        \* ,_fillmJson |->
        \*     LET J == INSTANCE Json
        \*     IN J!ToJson(fillm)
        
        \* Lastly, you may build expressions over arbitrary sets of states by
        \* leveraging the _TETrace operator.  For example, this is how to
        \* count the number of times a spec variable changed up to the current
        \* state in the trace.
        \* ,_fillmModCount |->
        \*     LET F[s \in DOMAIN _TETrace] ==
        \*         IF s = 1 THEN 0
        \*         ELSE IF _TETrace[s].fillm # _TETrace[s-1].fillm
        \*             THEN 1 + F[s-1] ELSE F[s-1]
        \*     IN F[_TEPosition - 1]
    ]

=============================================================================



Parsing and semantic processing can take forever if the trace below is long.
 In this case, it is advised to uncomment the module below to deserialize the
 trace from a generated binary file.

\*
\*---- MODULE Modes_MC_TETrace ----
\*EXTENDS IOUtils, Modes_MC, TLC
\*
\*trace == IODeserialize("Modes_MC_TTrace_1791014665.bin", TRUE)
\*
\*=============================================================================
\*

---- MODULE Modes_MC_TETrace ----
EXTENDS Modes_MC, TLC

trace == 
    <<
    ([fillm |-> "NOFILL",xdim |-> FALSE,mode |-> "coll",xatt |-> FALSE,hist |-> <<[c |-> [c |-> "start", s |-> "openrw"], rc |-> "NC_NOERR"]>>,vname |-> "fv",xvar |-> FALSE,exists |-> TRUE,ga |-> TRUE,fresh |-> FALSE,ro |-> FALSE,pend |-> {},abuf |-> FALSE]),
    ([fillm |-> "NOFILL",xdim |-> FALSE,mode |-> "indep",xatt |-> FALSE,hist |-> <<[c |-> [c |-> "start", s |-> "openrw"], rc |-> "NC_NOERR"], [c |-> [c |-> "begin_indep"], rc |-> "NC_NOERR"]>>,vname |-> "fv",xvar |-> FALSE,exists |-> TRUE,ga |-> TRUE,fresh |-> FALSE,ro |-> FALSE,pend |-> {},abuf |-> FALSE]),
    ([fillm |-> "NOFILL",xdim |-> FALSE,mode |-> "indep",xatt |-> FALSE,hist |-> <<[c |-> [c |-> "start", s |-> "openrw"], rc |-> "NC_NOERR"], [c |-> [c |-> "begin_indep"], rc |-> "NC_NOERR"], [c |-> [c |-> "attach"], rc |-> "NC_NOERR"]>>,vname |-> "fv",xvar |-> FALSE,exists |-> TRUE,ga |-> TRUE,fresh |-> FALSE,ro |-> FALSE,pend |-> {},abuf |-> TRUE]),
    ([fillm |-> "NOFILL",xdim |-> FALSE,mode |-> "indep",xatt |-> FALSE,hist |-> <<[c |-> [c |-> "start", s |-> "openrw"], rc |-> "NC_NOERR"], [c |-> [c |-> "begin_indep"], rc |-> "NC_NOERR"], [c |-> [c |-> "attach"], rc |-> "NC_NOERR"], [c |-> [c |-> "bput"], rc |-> "NC_NOERR"]>>,vname |-> "fv",xvar |-> FALSE,exists |-> TRUE,ga |-> TRUE,fresh |-> FALSE,ro |-> FALSE,pend |-> {"pb"},abuf |-> TRUE])
    >>
----


=============================================================================

---- CONFIG Modes_MC_TTrace_1791014665 ----
CONSTANTS
    Starts = { "created" , "openrw" , "openro" }

INVARIANT
    _inv

CHECK_DEADLOCK
    \* CHECK_DEADLOCK off because of PROPERTY or INVARIANT above.
    FALSE

INIT
    _init

NEXT
    _next

CONSTANT
    _TETrace <- _trace

ALIAS
    _expression
=============================================================================
\* Generated on Sat Oct 03 08:04:25 UTC 2026