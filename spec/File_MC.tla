------------------------------ MODULE File_MC ------------------------------
(* bounded instance of File: exhaustive design check (small) and simulation-based behaviour generation *)
EXTENDS File, Json, Randomization

CONSTANTS Depth, Names, Types, Fmt
VARIABLE tk

Lens == {0, 2, 3}
AttVals == { <<7>>, <<7, 8>>, <<9, 9, 9>> }
NLen(s) == IF s \in {"a", "b", "c"} THEN 1 ELSE 3          \* byte length of the (abstract) names: "a","b","c" / long ones
Targets == {-1} \cup {i - 1 : i \in 1..Len(vars)}
Att(n, t, vs) == [name |-> n, xtype |-> t, n |-> Len(vs), vals |-> vs]
DimSeqs == {<<>>} \cup {<<d>> : d \in 0..(Len(dims) - 1)} \cup {<<d, e>> : d, e \in 0..(Len(dims) - 1)}
Tok(v) == Const(RowLen(vars[v + 1]), tk)
SrcAtts == {Att("x", "int", <<7>>), Att("x", "double", <<9, 9, 9>>), Att("x", "short", <<7, 8>>)}

OpenNext ==
    \/ \E n \in Names, ln \in Lens : DefDim(n, ln, DefDimRc(n, ln)) /\ Len(dims) < 3 /\ tk' = tk
    \/ \E n \in Names, t \in Types, ds \in DimSeqs : DefVar(n, t, ds, DefVarRc(n, t, ds)) /\ Len(vars) < 3 /\ tk' = tk
    \/ \E t \in Targets, n \in Names \cup {"_FillValue"}, ty \in Types, vs \in AttVals :
          /\ Len(AttsOf(t)) < 3
          /\ \E rc \in PutAttRcs(t, Att(n, ty, vs)) : PutAtt(t, Att(n, ty, vs), rc) /\ tk' = tk
    \/ \E t \in Targets, n \in Names : DelAtt(t, n, DelAttRc(t, n)) /\ tk' = tk
    \/ \E t \in Targets, o \in Names, n \in Names :
          RenameAtt(t, o, n, NLen(o), NLen(n), RenameAttRc(t, o, n, NLen(o), NLen(n))) /\ tk' = tk
    \/ \E v \in 0..(Len(vars) - 1), n \in Names :
          RenameVar(v, n, NLen(vars[v + 1].name), NLen(n), RenameVarRc(v, n, NLen(vars[v + 1].name), NLen(n))) /\ tk' = tk
    \/ \E d \in 0..(Len(dims) - 1), n \in Names :
          RenameDim(d, n, NLen(dims[d + 1].name), NLen(n), RenameDimRc(d, n, NLen(dims[d + 1].name), NLen(n))) /\ tk' = tk
    \/ \E t1 \in Targets, t2 \in Targets, n \in Names : \E rc \in {"NC_NOERR", "NC_ENOTATT", "NC_ENOTINDEFINE", "NC_EBADTYPE", "NC_ESTRICTCDF2", "NC_ELATEFILL", "NC_EINVAL", "NC_ENOTVAR"} :
          CopyAtt(t1, n, t2, rc) /\ tk' = tk
    \* attributes of a second open file (fixture of the harness: an int, a double[3] and a short[2] attribute, each in a list of its own)
    \/ \E a \in SrcAtts, t2 \in Targets, nm \in Names : \E rc \in PutAttRcs(t2, [a EXCEPT !.name = nm]) :
          mode # "closed" /\ CopyAttFrom([a EXCEPT !.name = nm], t2, rc) /\ tk' = tk
    \/ \E t1 \in Targets, n \in Names : mode # "closed" /\ CopyAttTo(t1, n, "ANY") /\ tk' = tk
    \/ \E m \in {"FILL", "NOFILL"} : \E rc \in {"NC_NOERR", "NC_ENOTINDEFINE"} : SetFill(m, rc) /\ tk' = tk
    \/ \E v \in 0..(Len(vars) - 1), nf \in BOOLEAN : \E rc \in {"NC_NOERR", "NC_ENOTINDEFINE"} : DefVarFill(v, nf, rc) /\ tk' = tk
    \/ \E rc \in {"NC_NOERR", "NC_ENOTINDEFINE"} : Enddef(rc) /\ tk' = tk
    \/ \E rc \in {"NC_NOERR", "NC_EINDEFINE"} : Redef(rc) /\ mode # "closed" /\ tk' = tk
    \/ Abort("NC_NOERR") /\ tk' = tk
    \/ Close("NC_NOERR") /\ tk' = tk
    \/ \E v \in 0..(Len(vars) - 1), r \in 0..2 :
          /\ mode = "data" /\ RowLen(vars[v + 1]) > 0
          /\ PutData(v, IF IsRecVar(vars[v + 1]) THEN r ELSE 0, Tok(v), "NC_NOERR") /\ tk' = tk + 1
    \/ \E v \in 0..(Len(vars) - 1), r \in 0..2 : \E rc \in {"NC_NOERR", "NC_ENOTRECVAR", "NC_ENOTFILL"} :
          /\ RowLen(vars[v + 1]) > 0 /\ FillRec(v, r, rc) /\ tk' = tk

MCNext == (mode # "closed" /\ OpenNext) \/ (Reopen("NC_NOERR") /\ tk' = tk)

(* attribute-list generator (exhaustive, one execution per transition): put / overwrite / rename / delete of global
   attributes over a small name universe, in the creating define mode *)
AttNext ==
    \/ \E n \in Names : \E rc \in PutAttRcs(-1, Att(n, "int", <<7>>)) :
          Len(gatts) < 4 /\ PutAtt(-1, Att(n, "int", <<7>>), rc) /\ tk' = tk
    \/ \E o \in Names, n \in Names :
          RenameAtt(-1, o, n, NLen(o), NLen(n), RenameAttRc(-1, o, n, NLen(o), NLen(n))) /\ tk' = tk
    \/ \E n \in Names : DelAtt(-1, n, DelAttRc(-1, n)) /\ tk' = tk
AttView == gatts
EmitAll == PrintT("EMIT " \o ToJson([h |-> hist', chg |-> (gatts' # gatts)]))

MCInit == Init0(Fmt) /\ tk = 1
MCSpec == MCInit /\ [][MCNext]_<<vars_, tk>>
AttSpec == MCInit /\ [][AttNext]_<<vars_, tk>>
Bound == Len(hist) < Depth
View == <<state, Len(hist)>>
EmitEnd == Len(hist') # Depth \/ PrintT("EMIT " \o ToJson([h |-> hist', chg |-> TRUE]))
(* C04 generator: the abstract content of the file at the end of a walk (only states in which the file on disk is the model) *)
EmitState == (Len(hist') # Depth \/ mode' = "def")
             \/ PrintT("EMIT " \o ToJson([st |-> [fmt |-> fmt', numrecs |-> numrecs', dims |-> dims', gatts |-> gatts', vars |-> vars']]))
OkOnly == "rc" \notin DOMAIN hist'[Len(hist')] \/ hist'[Len(hist')].rc = "NC_NOERR"
ReachFilled == ~(\E i \in 1..Len(vars) : mode = "data" /\ ~vars[i].isnew /\ IsRecVar(vars[i]) /\ Len(vars[i].data) > 0 /\ vars[i].data[1][1] = F)
=============================================================================
