---------------------------- MODULE Nonblock_MC ----------------------------
(* C02/C13 generator (simulation only): nonblocking requests drawn at random from ALL legal
   (start,count,stride) of larger variables, varn lists, waits and cancels of arbitrary subsets. *)
EXTENDS Data, Json, Randomization

CONSTANTS Depth, PostKinds, AttachSizes, MaxQ
VARIABLE tk

NVarTab == << [shape |-> <<6, 4>>, rec |-> FALSE, xsz |-> 4],     \* 0: F int   [6][4]
              [shape |-> <<3, 4>>, rec |-> TRUE,  xsz |-> 4],     \* 1: R int   [t][4]
              [shape |-> <<3, 2>>, rec |-> TRUE,  xsz |-> 2],     \* 2: G short [t][2]
              [shape |-> <<4>>,    rec |-> FALSE, xsz |-> 8] >>   \* 3: H double[4]

DimOpts(n) == {t \in (0..(n - 1)) \X (1..n) \X (1..2) : t[1] + (t[2] - 1) * t[3] <= n - 1}
RECURSIVE Opts(_, _)
Opts(shape, d) == IF d > Len(shape) THEN {<<>>}
                  ELSE {<<o>> \o rest : o \in DimOpts(shape[d]), rest \in Opts(shape, d + 1)}
SubOf(o) == [start  |-> AsSeq([d \in 1..Len(o) |-> o[d][1]]),
             count  |-> AsSeq([d \in 1..Len(o) |-> o[d][2]]),
             stride |-> AsSeq([d \in 1..Len(o) |-> o[d][3]])]
Subs(v) == {SubOf(o) : o \in Opts(Shape(v), 1)}
(* one random single request, one random varn request (unit strides) *)
(* a bound variable ranging over a random one-element subset is drawn once per evaluation *)
RandReqs(v)  == {[v |-> v, subs |-> <<s>>] : s \in RandomSubset(1, Subs(v))}
(* requests that make aggregation work hard: strided in the slowest dimension with several rows *)
Hard(v)      == {s \in Subs(v) : Len(s.stride) >= 1 /\ s.stride[1] = 2 /\ s.count[1] >= 2}
HardReqs(v)  == IF Hard(v) = {} THEN {} ELSE {[v |-> v, subs |-> <<s>>] : s \in RandomSubset(1, Hard(v))}
Unit(v)      == {s \in Subs(v) : \A d \in 1..Len(s.stride) : s.stride[d] = 1}
RandVarns(v) == {[v |-> v, subs |-> <<a, b, c>>] : a \in RandomSubset(1, Unit(v)), b \in RandomSubset(1, Unit(v)), c \in RandomSubset(1, Unit(v))}

ToSet(s) == {s[i] : i \in 1..Len(s)}
PendingElems(v, kinds) == UNION {ToSet(Elems(Q[i].r)) : i \in {j \in 1..Len(Q) : Q[j].kind \in kinds /\ Q[j].r.v = v}}
NoDup(r) == Cardinality(ToSet(Elems(r))) = Len(Elems(r))
(* the property's restriction (no element written twice among pending requests) and, to keep the walks clear of
   the recorded overlapping-read finding, no element read twice among pending reads *)
Compatible(kind, r) ==
    IF kind = "iget" THEN NoDup(r) /\ ToSet(Elems(r)) \cap PendingElems(r.v, {"iget"}) = {}
    ELSE NoDup(r) /\ ToSet(Elems(r)) \cap PendingElems(r.v, {"iput", "bput"}) = {}

Toks(r) == AsSeq([k \in 1..Len(Elems(r)) |-> ((tk * 7 + k) % 119) + 1])
Lab == "q" \o ToString(tk)

PostIt(kind, r) ==
    /\ Len(Q) < MaxQ
    /\ Compatible(kind, r)
    /\ \E rc \in {"NC_NOERR", "NC_ENULLABUF", "NC_EINSUFFBUF", "NC_EINVALCOORDS", "NC_EEDGE"} :
          Post(kind, Lab, r, IF kind = "iget" THEN <<>> ELSE Toks(r), rc)
    /\ tk' = tk + 1

NNext ==
    \/ \E v \in 0..(NV - 1), kind \in PostKinds : \E r \in RandReqs(v) : PostIt(kind, r)
    \/ \E v \in 0..(NV - 1), kind \in PostKinds : \E r \in HardReqs(v) : PostIt(kind, r)
    \/ \E v \in 0..2, kind \in PostKinds : \E r \in RandVarns(v) : PostIt(kind, r)
    \/ \E named \in SUBSET Labels : named # {} /\ Wait(named, "NC_NOERR") /\ tk' = tk
    \/ \E q \in Labels : Cancel({q}, "NC_NOERR") /\ tk' = tk
    \* cancel by kind (NC_GET_REQ_ALL / NC_PUT_REQ_ALL): all pending reads or all pending writes, possibly none at all
    \/ Cancel({Q[i].lab : i \in {j \in 1..Len(Q) : Q[j].kind = "iget"}}, "NC_NOERR") /\ tk' = tk
    \/ Cancel({Q[i].lab : i \in {j \in 1..Len(Q) : Q[j].kind # "iget"}}, "NC_NOERR") /\ tk' = tk
    \/ \E v \in 0..(NV - 1) : \E r \in RandReqs(v) :
          /\ NoDup(r) /\ ToSet(Elems(r)) \cap PendingElems(v, {"iput", "bput"}) = {}
          /\ BPut(r, Toks(r), ReqErr(r, FALSE)) /\ tk' = tk + 1
    \/ \E v \in 0..(NV - 1) : \E r \in RandReqs(v) : BGet(r, ReqErr(r, TRUE)) /\ tk' = tk
    \/ \E size \in AttachSizes : \E rc \in {"NC_NOERR", "NC_EPREVATTACHBUF"} : Attach(size, rc) /\ tk' = tk
    \/ \E rc \in {"NC_NOERR", "NC_ENULLABUF", "NC_EPENDINGBPUT"} : Detach(rc) /\ tk' = tk

NInit == Init /\ tk = 1
NSpec == NInit /\ [][NNext]_<<vars, tk>>
EmitEnd == Len(hist') # Depth \/ PrintT("EMIT " \o ToJson([h |-> hist', chg |-> TRUE]))
=============================================================================
