--------------------------- MODULE Trace_Convert ---------------------------
(* Trace validation for Convert (C09): every put/get (variables and attributes) with the class and the exact expected
   result of each element: return code; after a put the values decoded from the file; after a get the buffer. *)
EXTENDS Convert, Json, IOUtils, Integers

VARIABLES l
Tr == ndJsonDeserialize(IOEnv.TRACE)
Chk(name, c) == IF c THEN TRUE ELSE (PrintT(<<"FAILED", name, l>>) /\ FALSE)
Same(a, b) == ToString(a) = ToString(b)

SeqMatch(want, got) == Len(want) <= Len(got) /\ \A k \in 1..Len(want) : Same(want[k], "?") \/ Same(want[k], got[k])

TSkip ==      \* fixture calls and marks: must succeed
    /\ IF Tr[l].e \in {"Reset", "Header"} THEN TRUE
       ELSE "setup" \in DOMAIN Tr[l].a /\ Tr[l].rc = "NC_NOERR"
    /\ l' = l + 1

TConv ==
    /\ Tr[l].e \notin {"Reset", "Header"} /\ "setup" \notin DOMAIN Tr[l].a
    /\ LET ev == Tr[l]  a == ev.a
           want == Delivered(a.srctext, a.dsttext, a.fmtno, a.cls, a.exp, a.fill) IN
         /\ Chk("rc", a.what = "putatt" \/ ev.rc = Rc(a.srctext, a.dsttext, a.fmtno, a.cls))
         /\ Chk("others", a.srctext # a.dsttext \/ OthersUnaffected(a.fmtno, a.cls, a.exp, a.fill))
         /\ CASE a.what = "put"    -> Chk("stored", SeqMatch(want, ev.obs.disk.vars[a.v + 1].data))
              [] a.what = "get"    -> Chk("buffer", ev.rc = "NC_ECHAR" \/ SeqMatch(want, ev.out.buf)) /\ Chk("guard", ev.out.guard)
              [] a.what = "putatt_rc" -> TRUE
              \* (checked at the following no-op step, once the header is on disk)
              [] a.what = "putatt" -> Chk("stored", SeqMatch(want, ev.obs.disk.gatts[1][4]))
              [] a.what = "getatt" -> Chk("buffer", ev.rc = "NC_ECHAR" \/ SeqMatch(want, ev.out.vals))
    /\ l' = l + 1

TNext == l <= Len(Tr) /\ (TSkip \/ TConv)
TraceSpec == l = 1 /\ [][TNext]_l
TraceAccepted ==
    LET n == TLCGet("stats").diameter - 1 IN
    /\ PrintT(<<"TRACE_MATCHED", n>>)
    /\ n = Len(Tr)
=============================================================================
