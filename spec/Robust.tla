------------------------------- MODULE Robust -------------------------------
(***************************************************************************)
(* C19, second sentence.  Opening ANY byte sequence either fails with a    *)
(* netCDF error or yields metadata that is consistent with itself, within  *)
(* a time and an amount of memory related to the size of the file; every   *)
(* later inquiry and read of such a file again returns (an error or data), *)
(* and the process survives.                                               *)
(*                                                                         *)
(* State: phase of the session on one input file.                          *)
(***************************************************************************)
EXTENDS Integers, Sequences, FiniteSets, TLC

CONSTANTS MaxMs,        \* wall time allowed for one call (ms)
          MaxRssMiB     \* growth of the peak resident set allowed while the file is open (MiB)

VARIABLES phase,    \* "none" | "open" | "failed" | "closed"
          schema,   \* what the inquiry functions reported after a successful open
          hist
rvars == <<phase, schema, hist>>

NcErrors == {"NC_ENOTNC", "NC_EBADDIM", "NC_EUNLIMIT", "NC_EMAXDIMS", "NC_EMAXVARS", "NC_EMAXATTS", "NC_EBADTYPE", "NC_EBADNAME",
             "NC_ENOMEM", "NC_EINVAL", "NC_EVARSIZE", "NC_EDIMSIZE", "NC_ENULLPAD", "NC_ENAMEINUSE", "NC_EFILE", "NC_EREAD",
             "NC_EMAXNAME", "NC_ENOTNC3", "NC_ENOTSUPPORT", "NC_EINTOVERFLOW", "NC_ECHAR", "NC_ERANGE", "NC_EEDGE", "NC_EINVALCOORDS",
             "NC_ENOTVAR", "NC_ENOTATT", "NC_EGLOBAL", "NC_EPERM", "NC_ENFILE", "NC_ESMALL", "NC_EINDEP", "NC_EBAD_FILE",
             "NC_ENO_SPACE", "NC_EQUOTA", "NC_EMULTIDEFINE", "NC_ESTRICTCDF2", "NC_EBADID", "NC_EUNLIMPOS"}
TypeCodes == 1..11
(* (numbers beyond TLC's 32-bit integers are clamped to -1 / 2^30 by the harness before they get here) *)
NonNeg(x) == x >= 0

(* metadata consistent with itself: every id refers to something that exists, at most one record dimension, only in
   front, types are types, counts are counts *)
Consistent(s) ==
    /\ s.unlim >= -1 /\ s.unlim < Len(s.dims)
    /\ \A i \in 1..Len(s.dims) : NonNeg(s.dims[i][2])
    /\ \A i \in 1..Len(s.vars) :
          LET v == s.vars[i] IN
          /\ v.type \in TypeCodes
          /\ \A k \in 1..Len(v.dimids) : v.dimids[k] >= 0 /\ v.dimids[k] < Len(s.dims)
          /\ \A k \in 2..Len(v.dimids) : v.dimids[k] # s.unlim
          /\ \A k \in 1..Len(v.atts) : Len(v.atts[k]) = 4 => (v.atts[k][2] \in TypeCodes /\ NonNeg(v.atts[k][3]))
    /\ \A k \in 1..Len(s.gatts) : Len(s.gatts[k]) = 4 => (s.gatts[k][2] \in TypeCodes /\ NonNeg(s.gatts[k][3]))

Init == phase = "none" /\ schema = <<>> /\ hist = <<>>

Open(rc, s, ms, rss0, rss1) ==
    /\ phase = "none"
    /\ ms <= MaxMs /\ rss1 - rss0 <= MaxRssMiB
    /\ \/ rc \in NcErrors /\ phase' = "failed" /\ schema' = <<>>
       \/ rc = "NC_NOERR" /\ Consistent(s) /\ phase' = "open" /\ schema' = s
    /\ hist' = <<[c |-> "open", rc |-> rc]>>

(* any inquiry or read on the opened file: returns, with data or an error *)
Use(rc, ms) ==
    /\ phase = "open" /\ ms <= MaxMs
    /\ rc \in NcErrors \cup {"NC_NOERR"}
    /\ UNCHANGED <<phase, schema>> /\ hist' = <<[c |-> "use", rc |-> rc]>>

Close(rc) ==
    /\ phase = "open" /\ rc \in NcErrors \cup {"NC_NOERR"}
    /\ phase' = "closed" /\ UNCHANGED schema /\ hist' = <<[c |-> "close", rc |-> rc]>>

(* design property: a session never gets stuck half-open -- every reachable state is either before the open, failed, open
   or closed, and metadata is only ever held for a file whose open succeeded *)
TypeOK == phase \in {"none", "open", "failed", "closed"} /\ (schema # <<>> => phase \in {"open", "closed"})
=============================================================================
