--------------------------------- MODULE MP ---------------------------------
(***************************************************************************)
(* Several processes sharing one file in data mode (C05, C08).             *)
(*                                                                         *)
(* One action per API step; a collective step takes the arguments of all   *)
(* ranks at once (the harness separates steps by barriers, so steps are    *)
(* atomic with respect to each other; what happens INSIDE a collective     *)
(* call -- the order of the ranks' arrival -- is not observable and the    *)
(* result may not depend on it).                                           *)
(*                                                                         *)
(* The record variable R[t][W]: each write addresses whole records.        *)
(* rows[r+1] is the token sequence of record r, or <<>> if never written.  *)
(*                                                                         *)
(* C05: after every collective write / fill / wait_all, and from the next  *)
(*      synchronising call after independent writes, every rank's record   *)
(*      count and the header's equal 1 + the highest record written.       *)
(* C08: a rank whose argument is invalid gets its error code, the others   *)
(*      succeed and their data is stored; every rank returns.              *)
(***************************************************************************)
EXTENDS Naturals, Integers, Sequences, FiniteSets, TLC

CONSTANTS N,          \* number of processes (ranks 0..N-1)
          MaxRec,     \* records 0..MaxRec-1
          Safe,       \* safe mode (argument errors of data calls are agreed on collectively)
          KeepHist

Ranks == 0..(N - 1)
Recs  == 0..(MaxRec - 1)

VARIABLES
    numrecs,   \* numrecs[p]: record count rank p reports
    disk,      \* record count in the file header
    indep,     \* the file is in independent data mode
    rows,      \* rows[r+1]: tokens of record r (<<>>: never written)
    Q,         \* Q[p]: pending nonblocking record writes of rank p, [lab, rec, nrec, tok]
    highest,   \* ghost: 1 + highest record index of any completed write
    mine,      \* ghost: mine[p] = 1 + highest record index rank p itself completed
    hist

vars  == <<numrecs, disk, indep, rows, Q, highest, mine, hist>>
state == <<numrecs, disk, indep, rows, Q, highest, mine>>
H(r) == IF KeepHist THEN Append(hist, r) ELSE <<r>>

Max(a, b) == IF a >= b THEN a ELSE b
SetMax(S) == CHOOSE x \in S : \A y \in S : y <= x
AsSeq(f) == <<>> \o f

(* error code of each class of invalid argument (the rank-local check of the documentation) *)
ErrOf(cls) == CASE cls = "einvalcoords" -> "NC_EINVALCOORDS"
                [] cls = "eedge"        -> "NC_EEDGE"
                [] cls = "enotvar"      -> "NC_ENOTVAR"
                [] cls = "estride"      -> "NC_ESTRIDE"
                [] cls = "enegcnt"      -> "NC_ENEGATIVECNT"
                [] cls = "echar"        -> "NC_ECHAR"
                [] cls = "eiomismatch"  -> "NC_EIOMISMATCH"
                [] OTHER                -> "NC_NOERR"
IsInv(a) == a.cls \notin {"valid", "zero"}
(* a valid request one of whose values is not representable in the variable's type: the call reports NC_ERANGE, the
   element receives the fill value, everything else -- the record count in particular -- is as for NC_NOERR *)
RcOfArg(a) == IF "erange" \in DOMAIN a /\ a.cls = "valid" THEN "NC_ERANGE" ELSE ErrOf(a.cls)

(* writes of one step: set of [rec, tok] (tok is one record's token sequence) *)
Apply(rw, W) == AsSeq([i \in 1..MaxRec |-> IF \E w \in W : w.rec = i - 1
                                              THEN (CHOOSE w \in W : w.rec = i - 1).tok ELSE rw[i]])
(* the records written by a valid argument a = [cls, rec, nrec, tok]: tok is a sequence of nrec row sequences *)
WritesOf(a) == IF a.cls # "valid" THEN {} ELSE {[rec |-> a.rec + k - 1, tok |-> a.tok[k]] : k \in 1..a.nrec}
TopOf(a) == IF a.cls # "valid" \/ a.nrec = 0 THEN 0 ELSE a.rec + a.nrec

SyncAll(h) == /\ numrecs' = [p \in Ranks |-> h] /\ disk' = h

(***************************************************************************)
(* collective put on the record variable: A[p] is rank p's argument        *)
(***************************************************************************)
CollPut(A, rc) ==
    /\ ~indep
    /\ LET inv == {p \in Ranks : IsInv(A[p])} IN
       IF Safe /\ inv # {}
         THEN \* safe mode: every rank returns one and the same error of those present; nothing is transferred
              /\ \E q \in inv : \A p \in Ranks : rc[p] = ErrOf(A[q].cls)
              /\ UNCHANGED state
         ELSE /\ \A p \in Ranks : rc[p] = RcOfArg(A[p])          \* errors stay local
              /\ LET W == UNION {WritesOf(A[p]) : p \in Ranks}
                     h == Max(highest, SetMax({0} \cup {TopOf(A[p]) : p \in Ranks}))
                 IN /\ rows' = Apply(rows, W)
                    /\ highest' = h
                    /\ SyncAll(h)
                    /\ mine' = [p \in Ranks |-> Max(mine[p], TopOf(A[p]))]
              /\ UNCHANGED <<indep, Q>>
    /\ hist' = H([c |-> "coll_put", A |-> A, rc |-> rc])

(* collective get of the records [0, n[p]) by every rank: the expected buffers are rows *)
CollGet(A, rc) ==
    /\ ~indep
    /\ LET inv == {p \in Ranks : IsInv(A[p])} IN
       IF Safe /\ inv # {}
         THEN \E q \in inv : \A p \in Ranks : rc[p] = ErrOf(A[q].cls)
         ELSE \A p \in Ranks : rc[p] = ErrOf(A[p].cls)
    /\ UNCHANGED state
    /\ hist' = H([c |-> "coll_get", A |-> A, rc |-> rc])

IndepPut(p, a, rc) ==
    /\ indep
    /\ rc = RcOfArg(a)
    /\ rows' = Apply(rows, WritesOf(a))
    /\ highest' = Max(highest, TopOf(a))
    /\ numrecs' = [numrecs EXCEPT ![p] = Max(@, TopOf(a))]
    /\ mine' = [mine EXCEPT ![p] = Max(@, TopOf(a))]
    /\ UNCHANGED <<disk, indep, Q>>
    /\ hist' = H([c |-> "indep_put", p |-> p, a |-> a, rc |-> rc])

BeginIndep ==
    /\ indep' = TRUE /\ UNCHANGED <<numrecs, disk, rows, Q, highest, mine>>
    /\ hist' = H([c |-> "begin_indep"])

(* the documented synchronisation calls: leaving independent mode, sync, sync_numrecs (in independent
   mode), redef+enddef, close+reopen *)
SyncCall(name) ==
    /\ name \in {"end_indep", "sync", "sync_numrecs", "redef_enddef", "reopen"}
    /\ indep' = IF name \in {"end_indep", "redef_enddef", "reopen"} THEN FALSE ELSE indep
    /\ IF indep \/ name \in {"redef_enddef", "reopen"}
         THEN SyncAll(highest)
         ELSE UNCHANGED <<numrecs, disk>>      \* collective mode: already coherent (invariant)
    /\ name = "reopen" => \A p \in Ranks : Q[p] = <<>>
    /\ UNCHANGED <<rows, Q, highest, mine>>
    /\ hist' = H([c |-> name])

Post(p, lab, a) ==
    /\ a.cls = "valid"
    /\ \A i \in 1..Len(Q[p]) : Q[p][i].lab # lab
    /\ Q' = [Q EXCEPT ![p] = Append(@, [lab |-> lab, a |-> a])]
    /\ UNCHANGED <<numrecs, disk, indep, rows, highest, mine>>
    /\ hist' = H([c |-> "post", p |-> p, lab |-> lab, a |-> a])

PendingOf(p, S) == {Q[p][i].a : i \in {j \in 1..Len(Q[p]) : Q[p][j].lab \in S}}

(* wait_all: rank p completes the requests S[p] (possibly none) *)
WaitAll(S, rc) ==
    /\ ~indep
    /\ \A p \in Ranks : rc[p] = "NC_NOERR" /\ S[p] \subseteq {Q[p][i].lab : i \in 1..Len(Q[p])}
    /\ LET W == UNION {UNION {WritesOf(a) : a \in PendingOf(p, S[p])} : p \in Ranks}
           top(p) == SetMax({0} \cup {TopOf(a) : a \in PendingOf(p, S[p])})
           h == Max(highest, SetMax({top(p) : p \in Ranks}))
       IN /\ rows' = Apply(rows, W)
          /\ highest' = h
          /\ SyncAll(h)
          /\ mine' = [p \in Ranks |-> Max(mine[p], top(p))]
    /\ Q' = [p \in Ranks |-> SelectSeq(Q[p], LAMBDA q : q.lab \notin S[p])]
    /\ UNCHANGED indep
    /\ hist' = H([c |-> "wait_all", S |-> S, rc |-> rc])

WaitIndep(p, S, rc) ==
    /\ indep /\ rc = "NC_NOERR"
    /\ S \subseteq {Q[p][i].lab : i \in 1..Len(Q[p])}
    /\ LET top == SetMax({0} \cup {TopOf(a) : a \in PendingOf(p, S)}) IN
          /\ rows' = Apply(rows, UNION {WritesOf(a) : a \in PendingOf(p, S)})
          /\ highest' = Max(highest, top)
          /\ numrecs' = [numrecs EXCEPT ![p] = Max(@, top)]
          /\ mine' = [mine EXCEPT ![p] = Max(@, top)]
    /\ Q' = [Q EXCEPT ![p] = SelectSeq(@, LAMBDA q : q.lab \notin S)]
    /\ UNCHANGED <<disk, indep>>
    /\ hist' = H([c |-> "wait", p |-> p, S |-> S, rc |-> rc])

(* explicit fill of one record (collective) *)
FillRec(rec, filltok, rc) ==
    /\ ~indep /\ \A p \in Ranks : rc[p] = "NC_NOERR"
    /\ rows' = Apply(rows, {[rec |-> rec, tok |-> filltok]})
    /\ highest' = Max(highest, rec + 1)
    /\ SyncAll(Max(highest, rec + 1))
    /\ UNCHANGED <<indep, Q, mine>>
    /\ hist' = H([c |-> "fill_rec", rec |-> rec, rc |-> rc])

Init == /\ numrecs = [p \in Ranks |-> 0] /\ disk = 0 /\ indep = FALSE
        /\ rows = AsSeq([i \in 1..MaxRec |-> <<>>]) /\ Q = [p \in Ranks |-> <<>>]
        /\ highest = 0 /\ mine = [p \in Ranks |-> 0] /\ hist = <<>>

(***************************************************************************)
(* Properties                                                              *)
(***************************************************************************)
(* C05: in collective data mode the count is the same everywhere and is 1 + the highest record written *)
Coherent == ~indep => (\A p \in Ranks : numrecs[p] = highest) /\ disk = highest
(* never smaller than needed to make a process' own completed writes readable *)
Readable == \A p \in Ranks : numrecs[p] >= mine[p] /\ numrecs[p] <= highest
Monotone == [][hist' # <<>> => (\A p \in Ranks : numrecs'[p] >= numrecs[p]) /\ disk' >= disk]_vars
=============================================================================
