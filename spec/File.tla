-------------------------------- MODULE File --------------------------------
(***************************************************************************)
(* One file through define mode and data mode: the schema as a sequential  *)
(* reference model (C07), what must be in the file at every point where    *)
(* the library promises it is up to date (C03), preservation of data over  *)
(* redefinition and the all-or-nothing abort (C06), fill semantics (C16).  *)
(*                                                                         *)
(* Names are already NFC-normalised strings (the harness normalises with   *)
(* an independent implementation and passes both spellings).  Values are   *)
(* opaque printed forms.  Variable data: fixed variable = one token        *)
(* sequence; record variable = sequence of records (token sequences).      *)
(* Token U = never written (unconstrained), F = fill.                      *)
(***************************************************************************)
EXTENDS Naturals, Integers, Sequences, FiniteSets, TLC

CONSTANTS KeepHist

NoSave == [on |-> FALSE]
U == -1
F == -2

VARIABLES
    dims,      \* sequence of [name, len]            (len 0 = unlimited)
    gatts,     \* sequence of [name, xtype, vals]
    vars,      \* sequence of [name, xtype, dimids, atts, nofill, isnew, data]
    numrecs,
    mode,      \* "def" | "data" | "closed"
    fresh,     \* created in this session, first enddef not done
    fillmode,  \* dataset fill mode at this moment: "FILL" | "NOFILL"
    fmt,       \* 1 | 2 | 5
    saved,     \* state saved by redef (restored by abort): [on, dims, gatts, vars, fillmode] or NoSave
    exists,    \* the file exists on disk
    hist

vars_ == <<dims, gatts, vars, numrecs, mode, fresh, fillmode, fmt, saved, exists, hist>>
state == <<dims, gatts, vars, numrecs, mode, fresh, fillmode, fmt, saved, exists>>
H(r) == IF KeepHist THEN Append(hist, r) ELSE <<r>>
AsSeq(f) == <<>> \o f

TypeSize(t) == CASE t \in {"byte", "char", "ubyte"} -> 1 [] t \in {"short", "ushort"} -> 2
                 [] t \in {"int", "float", "uint"} -> 4 [] OTHER -> 8
ClassicTypes == {"byte", "char", "short", "int", "float", "double"}
TypeOKFor(f, t) == f = 5 \/ t \in ClassicTypes
Pad4(n) == ((n + 3) \div 4) * 4

IdxOf(seq, name) == IF \E i \in 1..Len(seq) : seq[i].name = name
                      THEN CHOOSE i \in 1..Len(seq) : seq[i].name = name ELSE 0
RemoveAt(seq, i) == SubSeq(seq, 1, i - 1) \o SubSeq(seq, i + 1, Len(seq))

HasUnlim == \E i \in 1..Len(dims) : dims[i].len = 0
IsRecVar(v) == Len(v.dimids) > 0 /\ dims[v.dimids[1] + 1].len = 0

RECURSIVE Prod(_)
Prod(s) == IF s = <<>> THEN 1 ELSE Head(s) * Prod(Tail(s))
(* elements of a fixed variable, or of one record of a record variable *)
Shape(v) == AsSeq([i \in 1..Len(v.dimids) |-> dims[v.dimids[i] + 1].len])
RowLen(v) == IF IsRecVar(v) THEN Prod(Tail(Shape(v))) ELSE Prod(Shape(v))
Const(n, x) == AsSeq([i \in 1..n |-> x])

(* attribute list of target t: -1 = global, else variable id *)
AttsOf(t) == IF t = -1 THEN gatts ELSE vars[t + 1].atts
AttXsz(a) == Pad4(a.n * TypeSize(a.xtype))

InDef == mode = "def"

(***************************************************************************)
(* define-mode operations; rc is the documented error or NC_NOERR          *)
(***************************************************************************)
(* where several errors apply and no precedence is documented, any of them is acceptable *)
DefDimRcs(name, len) ==
    IF ~InDef THEN {"NC_ENOTINDEFINE"}
    ELSE LET es == (IF len = 0 /\ HasUnlim THEN {"NC_EUNLIMIT"} ELSE {}) \cup (IF IdxOf(dims, name) # 0 THEN {"NC_ENAMEINUSE"} ELSE {})
         IN IF es = {} THEN {"NC_NOERR"} ELSE es
DefDimRc(name, len) == CHOOSE e \in DefDimRcs(name, len) : TRUE
DefDim(name, len, rc) ==
    /\ rc \in DefDimRcs(name, len)
    /\ IF rc = "NC_NOERR" THEN dims' = Append(dims, [name |-> name, len |-> len]) ELSE UNCHANGED dims
    /\ UNCHANGED <<gatts, vars, numrecs, mode, fresh, fillmode, fmt, saved, exists>>
    /\ hist' = H([c |-> "def_dim", name |-> name, len |-> len, rc |-> rc])

DefVarRcs(name, xtype, dimids) ==
    IF ~InDef THEN {"NC_ENOTINDEFINE"}
    ELSE IF ~TypeOKFor(fmt, xtype) THEN {"NC_ESTRICTCDF2", "NC_EBADTYPE"}
    ELSE IF \E i \in 1..Len(dimids) : dimids[i] < 0 \/ dimids[i] >= Len(dims) THEN {"NC_EBADDIM"}
    ELSE LET es == (IF \E i \in 2..Len(dimids) : dims[dimids[i] + 1].len = 0 THEN {"NC_EUNLIMPOS"} ELSE {})
                   \cup (IF IdxOf(vars, name) # 0 THEN {"NC_ENAMEINUSE"} ELSE {})
         IN IF es = {} THEN {"NC_NOERR"} ELSE es
DefVarRc(name, xtype, dimids) == CHOOSE e \in DefVarRcs(name, xtype, dimids) : TRUE
DefVar(name, xtype, dimids, rc) ==
    /\ rc \in DefVarRcs(name, xtype, dimids)
    /\ IF rc = "NC_NOERR"
         THEN vars' = Append(vars, [name |-> name, xtype |-> xtype, dimids |-> dimids, atts |-> <<>>,
                                    nofill |-> (fillmode = "NOFILL"), isnew |-> TRUE, data |-> <<>>])
         ELSE UNCHANGED vars
    /\ UNCHANGED <<dims, gatts, numrecs, mode, fresh, fillmode, fmt, saved, exists>>
    /\ hist' = H([c |-> "def_var", name |-> name, xtype |-> xtype, dimids |-> dimids, rc |-> rc])

(* put_att: t target, a = [name, xtype, n, vals].  In data mode only an overwrite that does not grow. *)
(* acceptable codes (a set where the documentation leaves room) *)
PutAttRcs(t, a) ==
    IF t # -1 /\ (t < 0 \/ t >= Len(vars)) THEN {"NC_ENOTVAR"}
    ELSE IF ~TypeOKFor(fmt, a.xtype) THEN {"NC_EBADTYPE", "NC_ESTRICTCDF2"}
    ELSE IF a.name = "_FillValue" /\ t # -1 /\ a.xtype # vars[t + 1].xtype THEN {"NC_EBADTYPE"}
    ELSE IF a.name = "_FillValue" /\ t # -1 /\ a.n # 1 THEN {"NC_EINVAL"}
    \* a fill value may not be (re)defined for a variable that existed before the current redefinition
    ELSE IF a.name = "_FillValue" /\ t # -1 /\ InDef /\ saved.on /\ t < Len(saved.vars) THEN {"NC_ELATEFILL"}
    ELSE LET i == IdxOf(AttsOf(t), a.name) IN
         IF ~InDef /\ (i = 0 \/ AttXsz(a) > AttXsz(AttsOf(t)[i])) THEN {"NC_ENOTINDEFINE"}
         \* in data mode, after data may exist: the documentation names NC_ELATEFILL, the overwrite is harmless
         ELSE IF a.name = "_FillValue" /\ t # -1 /\ ~InDef THEN {"NC_NOERR", "NC_ELATEFILL"}
         ELSE {"NC_NOERR"}
PutAttRc(t, a) == CHOOSE e \in PutAttRcs(t, a) : TRUE
SetAtts(t, new) == IF t = -1 THEN gatts' = new /\ UNCHANGED vars
                   ELSE vars' = [vars EXCEPT ![t + 1].atts = new] /\ UNCHANGED gatts
PutAtt(t, a, rc) ==
    /\ rc \in PutAttRcs(t, a)
    /\ IF rc = "NC_NOERR"
         THEN LET i == IdxOf(AttsOf(t), a.name) IN
              SetAtts(t, IF i = 0 THEN Append(AttsOf(t), a) ELSE [AttsOf(t) EXCEPT ![i] = a])
         ELSE UNCHANGED <<gatts, vars>>
    /\ UNCHANGED <<dims, numrecs, mode, fresh, fillmode, fmt, saved, exists>>
    /\ hist' = H([c |-> "put_att", t |-> t, a |-> a, rc |-> rc])

DelAttRc(t, name) ==
    IF t # -1 /\ (t < 0 \/ t >= Len(vars)) THEN "NC_ENOTVAR"
    ELSE IF ~InDef THEN "NC_ENOTINDEFINE"
    ELSE IF IdxOf(AttsOf(t), name) = 0 THEN "NC_ENOTATT"
    ELSE "NC_NOERR"
DelAtt(t, name, rc) ==
    /\ rc = DelAttRc(t, name)
    /\ IF rc = "NC_NOERR" THEN SetAtts(t, RemoveAt(AttsOf(t), IdxOf(AttsOf(t), name))) ELSE UNCHANGED <<gatts, vars>>
    /\ UNCHANGED <<dims, numrecs, mode, fresh, fillmode, fmt, saved, exists>>
    /\ hist' = H([c |-> "del_att", t |-> t, name |-> name, rc |-> rc])

(* renames: in data mode the new (normalised) name must not be longer; nlen(s) is supplied by the harness *)
RenameAttRc(t, old, new, oldlen, newlen) ==
    IF t # -1 /\ (t < 0 \/ t >= Len(vars)) THEN "NC_ENOTVAR"
    ELSE IF IdxOf(AttsOf(t), old) = 0 THEN "NC_ENOTATT"
    ELSE IF IdxOf(AttsOf(t), new) # 0 /\ new # old THEN "NC_ENAMEINUSE"
    ELSE IF ~InDef /\ newlen > oldlen THEN "NC_ENOTINDEFINE"
    ELSE "NC_NOERR"
RenameAtt(t, old, new, oldlen, newlen, rc) ==
    /\ (rc = RenameAttRc(t, old, new, oldlen, newlen) \/ (new = old /\ IdxOf(AttsOf(t), old) # 0 /\ rc = "NC_ENAMEINUSE"))
    /\ IF rc = "NC_NOERR" THEN SetAtts(t, [AttsOf(t) EXCEPT ![IdxOf(AttsOf(t), old)].name = new]) ELSE UNCHANGED <<gatts, vars>>
    /\ UNCHANGED <<dims, numrecs, mode, fresh, fillmode, fmt, saved, exists>>
    /\ hist' = H([c |-> "rename_att", t |-> t, old |-> old, new |-> new, rc |-> rc])

RenameVarRc(v, new, oldlen, newlen) ==
    IF v < 0 \/ v >= Len(vars) THEN "NC_ENOTVAR"
    ELSE IF IdxOf(vars, new) # 0 /\ IdxOf(vars, new) # v + 1 THEN "NC_ENAMEINUSE"
    ELSE IF ~InDef /\ newlen > oldlen THEN "NC_ENOTINDEFINE"
    ELSE "NC_NOERR"
RenameVar(v, new, oldlen, newlen, rc) ==
    /\ (rc = RenameVarRc(v, new, oldlen, newlen) \/ (v >= 0 /\ v < Len(vars) /\ vars[v + 1].name = new /\ rc = "NC_ENAMEINUSE"))
    /\ IF rc = "NC_NOERR" THEN vars' = [vars EXCEPT ![v + 1].name = new] ELSE UNCHANGED vars
    /\ UNCHANGED <<dims, gatts, numrecs, mode, fresh, fillmode, fmt, saved, exists>>
    /\ hist' = H([c |-> "rename_var", v |-> v, new |-> new, rc |-> rc])

RenameDimRc(d, new, oldlen, newlen) ==
    IF d < 0 \/ d >= Len(dims) THEN "NC_EBADDIM"
    ELSE IF IdxOf(dims, new) # 0 /\ IdxOf(dims, new) # d + 1 THEN "NC_ENAMEINUSE"
    ELSE IF ~InDef /\ newlen > oldlen THEN "NC_ENOTINDEFINE"
    ELSE "NC_NOERR"
RenameDim(d, new, oldlen, newlen, rc) ==
    /\ (rc = RenameDimRc(d, new, oldlen, newlen) \/ (d >= 0 /\ d < Len(dims) /\ dims[d + 1].name = new /\ rc = "NC_ENAMEINUSE"))
    /\ IF rc = "NC_NOERR" THEN dims' = [dims EXCEPT ![d + 1].name = new] ELSE UNCHANGED dims
    /\ UNCHANGED <<gatts, vars, numrecs, mode, fresh, fillmode, fmt, saved, exists>>
    /\ hist' = H([c |-> "rename_dim", d |-> d, new |-> new, rc |-> rc])

(* copy within this file: attribute name from target t1 to target t2 *)
CopyAtt(t1, name, t2, rc) ==
    /\ LET i == IdxOf(AttsOf(t1), name) IN
       IF (t1 # -1 /\ (t1 < 0 \/ t1 >= Len(vars))) \/ (t2 # -1 /\ (t2 < 0 \/ t2 >= Len(vars)))
         THEN rc = "NC_ENOTVAR" /\ UNCHANGED <<gatts, vars>>
       ELSE IF i = 0 THEN rc = "NC_ENOTATT" /\ UNCHANGED <<gatts, vars>>
       ELSE IF t1 = t2 THEN rc = "NC_NOERR" /\ UNCHANGED <<gatts, vars>>
       ELSE LET a == AttsOf(t1)[i] IN
            /\ rc \in PutAttRcs(t2, a)
            /\ IF rc = "NC_NOERR"
                 THEN LET j == IdxOf(AttsOf(t2), name) IN
                      SetAtts(t2, IF j = 0 THEN Append(AttsOf(t2), a) ELSE [AttsOf(t2) EXCEPT ![j] = a])
                 ELSE UNCHANGED <<gatts, vars>>
    /\ UNCHANGED <<dims, numrecs, mode, fresh, fillmode, fmt, saved, exists>>
    /\ hist' = H([c |-> "copy_att", t1 |-> t1, name |-> name, t2 |-> t2, rc |-> rc])

(* ncmpi_copy_att with ANOTHER open file as the source: attribute a of that file becomes an attribute of target t2 here,
   under the rules of a put of the same attribute (define mode, or data mode when it does not grow); the source file is
   not this model's business -- the trace specification requires that its bytes do not change *)
CopyAttFrom(a, t2, rc) ==
    /\ IF t2 # -1 /\ (t2 < 0 \/ t2 >= Len(vars))
         THEN rc = "NC_ENOTVAR" /\ UNCHANGED <<gatts, vars>>
         ELSE /\ rc \in PutAttRcs(t2, a)
              /\ IF rc = "NC_NOERR"
                   THEN LET j == IdxOf(AttsOf(t2), a.name) IN
                        SetAtts(t2, IF j = 0 THEN Append(AttsOf(t2), a) ELSE [AttsOf(t2) EXCEPT ![j] = a])
                   ELSE UNCHANGED <<gatts, vars>>
    /\ UNCHANGED <<dims, numrecs, mode, fresh, fillmode, fmt, saved, exists>>
    /\ hist' = H([c |-> "copy_att_from", a |-> a, t2 |-> t2, rc |-> rc])

(* ... and with this file as the source, another file as the destination: nothing changes here, whatever happens there *)
CopyAttTo(t1, name, rc) ==
    /\ UNCHANGED state
    /\ hist' = H([c |-> "copy_att_to", t1 |-> t1, name |-> name, rc |-> rc])

(* set_fill rewrites the per-variable switch of every variable defined so far *)
SetFill(m, rc) ==
    /\ rc = IF ~InDef THEN "NC_ENOTINDEFINE" ELSE "NC_NOERR"
    /\ IF rc = "NC_NOERR"
         THEN /\ fillmode' = m
              /\ vars' = AsSeq([i \in 1..Len(vars) |-> [vars[i] EXCEPT !.nofill = (m = "NOFILL")]])
         ELSE UNCHANGED <<fillmode, vars>>
    /\ UNCHANGED <<dims, gatts, numrecs, mode, fresh, fmt, saved, exists>>
    /\ hist' = H([c |-> "set_fill", m |-> m, rc |-> rc])

DefVarFill(v, nofill, rc) ==
    /\ rc = IF ~InDef THEN "NC_ENOTINDEFINE" ELSE IF v < 0 \/ v >= Len(vars) THEN "NC_ENOTVAR" ELSE "NC_NOERR"
    /\ IF rc = "NC_NOERR" THEN vars' = [vars EXCEPT ![v + 1].nofill = nofill] ELSE UNCHANGED vars
    /\ UNCHANGED <<dims, gatts, numrecs, mode, fresh, fillmode, fmt, saved, exists>>
    /\ hist' = H([c |-> "def_var_fill", v |-> v, nofill |-> nofill, rc |-> rc])

(***************************************************************************)
(* mode changes                                                            *)
(***************************************************************************)
(* a variable is filled at enddef iff its fill switch is on (the _FillValue attribute only selects the value);
   an explicit record fill is also allowed for a variable that carries a _FillValue attribute *)
WantsFill(v) == ~v.nofill
MayFillRec(v) == ~v.nofill \/ IdxOf(v.atts, "_FillValue") # 0
(* enddef: every NEW variable in fill mode is filled (fixed: entirely; record: the existing records);
   nothing else changes *)
FilledVar(v) ==
    IF ~v.isnew THEN v
    ELSE [v EXCEPT !.isnew = FALSE,
                   !.data = IF IsRecVar(v) THEN Const(numrecs, Const(RowLen(v), IF WantsFill(v) THEN F ELSE U))
                            ELSE Const(RowLen(v), IF WantsFill(v) THEN F ELSE U)]
Enddef(rc) ==
    /\ rc = IF ~InDef THEN "NC_ENOTINDEFINE" ELSE "NC_NOERR"
    /\ IF rc = "NC_NOERR"
         THEN /\ vars' = AsSeq([i \in 1..Len(vars) |-> FilledVar(vars[i])])
              /\ mode' = "data" /\ fresh' = FALSE /\ saved' = NoSave
         ELSE UNCHANGED <<vars, mode, fresh, saved>>
    /\ UNCHANGED <<dims, gatts, numrecs, fillmode, fmt, exists>>
    /\ hist' = H([c |-> "enddef", rc |-> rc])

Redef(rc) ==
    /\ rc = IF InDef THEN "NC_EINDEFINE" ELSE "NC_NOERR"
    /\ IF rc = "NC_NOERR"
         THEN mode' = "def" /\ saved' = [on |-> TRUE, dims |-> dims, gatts |-> gatts, vars |-> vars, fillmode |-> fillmode]
         ELSE UNCHANGED <<mode, saved>>
    /\ UNCHANGED <<dims, gatts, vars, numrecs, fresh, fillmode, fmt, exists>>
    /\ hist' = H([c |-> "redef", rc |-> rc])

(* abort: a fresh create disappears; a redefinition is discarded; in data mode like close *)
Abort(rc) ==
    /\ mode # "closed" /\ rc = "NC_NOERR"
    /\ mode' = "closed"
    /\ IF fresh THEN exists' = FALSE /\ UNCHANGED <<dims, gatts, vars, fillmode>>
       ELSE /\ UNCHANGED exists
            /\ IF InDef /\ saved.on
                 THEN dims' = saved.dims /\ gatts' = saved.gatts /\ vars' = saved.vars /\ fillmode' = saved.fillmode
                 ELSE UNCHANGED <<dims, gatts, vars, fillmode>>
    /\ saved' = NoSave /\ fresh' = FALSE
    /\ UNCHANGED <<numrecs, fmt>>
    /\ hist' = H([c |-> "abort", rc |-> rc])

(* close (performs enddef when in define mode) *)
Close(rc) ==
    /\ mode # "closed" /\ rc = "NC_NOERR"
    /\ vars' = IF InDef THEN AsSeq([i \in 1..Len(vars) |-> FilledVar(vars[i])]) ELSE vars
    /\ mode' = "closed" /\ fresh' = FALSE /\ saved' = NoSave
    /\ UNCHANGED <<dims, gatts, numrecs, fillmode, fmt, exists>>
    /\ hist' = H([c |-> "close", rc |-> rc])

(* open for writing: afterwards every variable is "old".  The per-variable fill switches are not stored in the file: the
   library reports every variable of an opened file as being in fill mode (ncmpi_inq_var_fill: no_fill = 0) and accordingly
   lets ncmpi_fill_var_rec fill its records -- modelled as the code behaves (the documentation does not say what the switch
   of an existing variable is after open; nothing is filled implicitly because of it) *)
Reopen(rc) ==
    /\ mode = "closed" /\ exists /\ rc = "NC_NOERR"
    /\ mode' = "data"
    /\ vars' = AsSeq([i \in 1..Len(vars) |-> [vars[i] EXCEPT !.isnew = FALSE, !.nofill = FALSE]])
    \* the dataset fill mode is a property of the session, not of the file: every open starts in the documented default NC_NOFILL
    /\ fillmode' = "NOFILL"
    /\ UNCHANGED <<dims, gatts, numrecs, fresh, fmt, saved, exists>>
    /\ hist' = H([c |-> "open", rc |-> rc])

(***************************************************************************)
(* data                                                                    *)
(***************************************************************************)
(* whole fixed variable, or one record r of a record variable *)
PutData(v, r, toks, rc) ==
    /\ mode = "data" /\ v >= 0 /\ v < Len(vars) /\ rc = "NC_NOERR"
    /\ Len(toks) = RowLen(vars[v + 1])
    /\ IF IsRecVar(vars[v + 1])
         THEN LET nr == IF r + 1 > numrecs THEN r + 1 ELSE numrecs IN
              /\ numrecs' = nr
              /\ vars' = AsSeq([i \in 1..Len(vars) |->
                     IF ~IsRecVar(vars[i]) THEN vars[i]
                     ELSE LET ext == vars[i].data \o Const(nr - Len(vars[i].data), Const(RowLen(vars[i]), U)) IN
                          [vars[i] EXCEPT !.data = IF i = v + 1 THEN [ext EXCEPT ![r + 1] = toks] ELSE ext]])
         ELSE vars' = [vars EXCEPT ![v + 1].data = toks] /\ UNCHANGED numrecs
    /\ UNCHANGED <<dims, gatts, mode, fresh, fillmode, fmt, saved, exists>>
    /\ hist' = H([c |-> "put", v |-> v, r |-> r, toks |-> toks, rc |-> rc])

FillRec(v, r, rc) ==
    /\ mode = "data" /\ v >= 0 /\ v < Len(vars)
    /\ rc = IF ~IsRecVar(vars[v + 1]) THEN "NC_ENOTRECVAR" ELSE IF ~MayFillRec(vars[v + 1]) THEN "NC_ENOTFILL" ELSE "NC_NOERR"
    /\ IF rc = "NC_NOERR"
         THEN LET nr == IF r + 1 > numrecs THEN r + 1 ELSE numrecs IN
              /\ numrecs' = nr
              /\ vars' = AsSeq([i \in 1..Len(vars) |->
                     IF ~IsRecVar(vars[i]) THEN vars[i]
                     ELSE LET ext == vars[i].data \o Const(nr - Len(vars[i].data), Const(RowLen(vars[i]), U)) IN
                          [vars[i] EXCEPT !.data = IF i = v + 1 THEN [ext EXCEPT ![r + 1] = Const(RowLen(vars[i]), F)] ELSE ext]])
         ELSE UNCHANGED <<vars, numrecs>>
    /\ UNCHANGED <<dims, gatts, mode, fresh, fillmode, fmt, saved, exists>>
    /\ hist' = H([c |-> "fill_rec", v |-> v, r |-> r, rc |-> rc])

Stutter(what) == UNCHANGED state /\ hist' = H([c |-> what])

Init0(f) == /\ dims = <<>> /\ gatts = <<>> /\ vars = <<>> /\ numrecs = 0 /\ mode = "def" /\ fresh = TRUE
            /\ fillmode = "NOFILL" /\ fmt = f /\ saved = NoSave /\ exists = TRUE /\ hist = <<>>

(***************************************************************************)
(* Properties                                                              *)
(***************************************************************************)
NamesUnique(seq) == \A i, j \in 1..Len(seq) : i # j => seq[i].name # seq[j].name
(* C07: names unique per list (ids are positions, hence dense) *)
Unique == /\ NamesUnique(dims) /\ NamesUnique(vars) /\ NamesUnique(gatts)
          /\ \A i \in 1..Len(vars) : NamesUnique(vars[i].atts)
OneUnlimited == Cardinality({i \in 1..Len(dims) : dims[i].len = 0}) <= 1
(* C06: what existed before a redefinition is never changed by the redefinition itself *)
OldDataKept ==
    [][ (mode = "def" /\ saved.on /\ mode' = "data") =>
           \A i \in 1..Len(saved.vars) : vars'[i].data = saved.vars[i].data ]_vars_
=============================================================================
