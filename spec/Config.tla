------------------------------- MODULE Config -------------------------------
(***************************************************************************)
(* C10.  A configuration is a combination of settings the documentation    *)
(* calls performance- or layout-only (alignment hints, packing-buffer      *)
(* size, in-place byte swap, header chunk size, name hash-table sizes,     *)
(* intra-node aggregation, safe mode).  A program is a fixed sequence of   *)
(* API steps.  The observable outcome of step k of a program -- the return *)
(* code on every rank, everything the call hands back, the pending-request *)
(* and record counts, the schema reported by the inquiry functions and the *)
(* logical content decoded from the file -- is a function of (program, k)  *)
(* ALONE: the first configuration under which a step is observed fixes     *)
(* the outcome every other configuration must reproduce.                   *)
(*                                                                         *)
(* (That the outcome under each single configuration is the RIGHT one is   *)
(* decided by the configuration-free specifications Data, MP and File,     *)
(* against which every configuration's trace is validated as well.)        *)
(***************************************************************************)
EXTENDS Naturals, Sequences, TLC

VARIABLES ref,     \* ref[k]: outcome of step k of the current program, as first observed
          seen     \* configurations under which the current program has been observed

Empty == [k \in {} |-> ""]

Init == ref = Empty /\ seen = {}

NewProgram == ref' = Empty /\ seen' = {}

(* step k of the current program observed with outcome o under configuration c *)
Observe(c, k, o) ==
    /\ seen' = seen \cup {c}
    /\ IF k \in DOMAIN ref THEN ref[k] = o /\ UNCHANGED ref
                           ELSE ref' = [x \in DOMAIN ref \cup {k} |-> IF x = k THEN o ELSE ref[x]]

(* the property, as an action property of any behaviour built from the two actions: an outcome, once fixed, never changes *)
Stable == [][\A k \in DOMAIN ref : k \in DOMAIN ref' => ref'[k] = ref[k] \/ ref' = Empty]_<<ref, seen>>
=============================================================================
