------------------------------ MODULE Data_MC ------------------------------
(* bounded instance of Data for the exhaustive design check and behaviour generation *)
EXTENDS Data, Json

CONSTANTS PostKinds,    \* kinds of nonblocking posts explored
          Blocking,     \* explore blocking put/get too
          AttachSizes

VARIABLE tk      \* token counter: every write request carries fresh, distinguishable tokens

MCVarTab == << [shape |-> <<2, 3>>, rec |-> FALSE, xsz |-> 4],     \* F  int   [y,x]
               [shape |-> <<3, 2>>, rec |-> TRUE,  xsz |-> 4],     \* R  int   [t,z]   (capacity 3 records)
               [shape |-> <<3, 2>>, rec |-> TRUE,  xsz |-> 2] >>   \* G  short [t,z]

Sub(s, c, st) == [start |-> s, count |-> c, stride |-> st]
One(v, s, c, st) == [v |-> v, subs |-> <<Sub(s, c, st)>>]
Menu ==
    { One(0, <<0, 0>>, <<2, 3>>, <<1, 1>>),      \* F whole
      One(0, <<1, 0>>, <<1, 3>>, <<1, 1>>),      \* F one row
      One(0, <<0, 1>>, <<2, 1>>, <<1, 1>>),      \* F one column (strided in the file)
      One(0, <<0, 0>>, <<2, 2>>, <<1, 2>>),      \* F columns 0 and 2
      One(0, <<0, 2>>, <<1, 1>>, <<1, 1>>),      \* F single element
      One(1, <<0, 0>>, <<1, 2>>, <<1, 1>>),      \* R record 0
      One(1, <<2, 0>>, <<1, 2>>, <<1, 1>>),      \* R record 2 (skips record 1)
      One(1, <<0, 0>>, <<2, 2>>, <<1, 1>>),      \* R records 0..1 (multi-record)
      One(1, <<0, 1>>, <<2, 1>>, <<2, 1>>),      \* R records 0 and 2, column 1
      One(2, <<1, 0>>, <<1, 2>>, <<1, 1>>),      \* G record 1
      One(1, <<0, 0>>, <<0, 2>>, <<1, 1>>),      \* zero-length
      [v |-> 1, subs |-> << Sub(<<0, 0>>, <<1, 1>>, <<1, 1>>), Sub(<<1, 1>>, <<2, 1>>, <<1, 1>>) >>],  \* varn: 1 + 2 records
      [v |-> 0, subs |-> << Sub(<<0, 0>>, <<1, 2>>, <<1, 1>>), Sub(<<1, 1>>, <<1, 2>>, <<1, 1>>) >>] } \* varn on F

Toks(r) == AsSeq([k \in 1..Len(Elems(r)) |-> tk * 10 + k])

ToSet(s) == {s[i] : i \in 1..Len(s)}
PendingPutElems(v) == UNION {ToSet(Elems(Q[i].r)) : i \in {j \in 1..Len(Q) : Q[j].kind # "iget" /\ Q[j].r.v = v}}
(* generator restriction of the property: no element written twice among the pending requests,
   reads see only records that exist *)
NoDoubleWrite(r) == ToSet(Elems(r)) \cap PendingPutElems(r.v) = {}
NoDup(r) == Cardinality(ToSet(Elems(r))) = Len(Elems(r))

MaxQ == 3
Lab == "q" \o ToString(tk)

MCNext ==
    \/ \E r \in Menu : /\ Blocking /\ NoDup(r) /\ BPut(r, Toks(r), ReqErr(r, FALSE)) /\ tk' = tk + 1
    \/ \E r \in Menu : /\ Blocking /\ BGet(r, ReqErr(r, TRUE)) /\ tk' = tk
    \/ \E r \in Menu, kind \in PostKinds, rc \in {"NC_NOERR", "NC_ENULLABUF", "NC_EINSUFFBUF", "NC_EINVALCOORDS", "NC_EEDGE"} :
          /\ Len(Q) < MaxQ
          /\ (kind # "iget" => NoDoubleWrite(r) /\ NoDup(r))
          /\ Post(kind, Lab, r, IF kind = "iget" THEN <<>> ELSE Toks(r), rc) /\ tk' = tk + 1
    \/ \E named \in SUBSET Labels : named # {} /\ Wait(named, "NC_NOERR") /\ tk' = tk
    \/ \E named \in SUBSET Labels : named # {} /\ Cancel(named, "NC_NOERR") /\ tk' = tk
    \/ \E size \in AttachSizes : \E rc \in {"NC_NOERR", "NC_EPREVATTACHBUF"} : Attach(size, rc) /\ tk' = tk
    \/ \E rc \in {"NC_NOERR", "NC_ENULLABUF", "NC_EPENDINGBPUT"} : Detach(rc) /\ tk' = tk

MCInit == Init /\ tk = 1
MCSpec == MCInit /\ [][MCNext]_<<vars, tk>>

CONSTANT Depth
Bound == Len(hist) < Depth            \* CONSTRAINT: explore histories of up to Depth calls
View == <<state, Len(hist)>>
Emit == PrintT("EMIT " \o ToJson([h |-> hist', chg |-> (state' # state)]))

EmitEnd == Len(hist') # Depth \/ PrintT("EMIT " \o ToJson([h |-> hist', chg |-> TRUE]))

(* C02 at design level: completing the pending requests in any grouping gives the same data as
   executing them as blocking calls in posting order (checked as: the data after a wait of everything
   equals the data obtained by applying the whole queue) -- stated on the model as an invariant of Wait *)
ReachBputPending == ~(\E i \in 1..Len(Q) : Q[i].kind = "bput" /\ Len(Q) = 3)
=============================================================================
