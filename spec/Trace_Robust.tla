---------------------------- MODULE Trace_Robust ----------------------------
(* Trace validation for Robust (C19): open of a malformed / arbitrary file, the schema reported if the open succeeds,
   every read that follows, close; a process that dies (signal, sanitizer report) leaves a trace that ends in ABNORMAL,
   which no action explains *)
EXTENDS Robust, Json, IOUtils

VARIABLES l, rss0
Tr == ndJsonDeserialize(IOEnv.TRACE)
Chk(name, c) == IF c THEN TRUE ELSE (PrintT(<<"FAILED", name, l>>) /\ FALSE)

TReset == Tr[l].e \in {"Reset", "Header"} /\ phase' = "none" /\ schema' = <<>> /\ hist' = <<>> /\ rss0' = 0 /\ l' = l + 1
TMark == Tr[l].e = "noop" /\ UNCHANGED rvars /\ rss0' = Tr[l].obs.rss /\ l' = l + 1
TOpen == /\ Tr[l].e = "open"
         /\ LET ev == Tr[l] IN
              /\ Chk("open.rc", ev.rc \in NcErrors \cup {"NC_NOERR"})
              /\ Chk("open.time", ev.obs.ms <= MaxMs)
              /\ Chk("open.memory", ev.obs.rss - rss0 <= MaxRssMiB)
              /\ Chk("open.consistent", ev.rc # "NC_NOERR" \/ ("rc" \notin DOMAIN ev.obs.schema /\ Consistent(ev.obs.schema)))
              /\ Open(ev.rc, IF ev.rc = "NC_NOERR" THEN ev.obs.schema ELSE <<>>, ev.obs.ms, rss0, ev.obs.rss)
         /\ UNCHANGED rss0 /\ l' = l + 1
TUse == /\ Tr[l].e \in {"get", "inq", "get_att"}
        /\ Chk("use.rc", Tr[l].rc \in NcErrors \cup {"NC_NOERR"}) /\ Chk("use.time", Tr[l].obs.ms <= MaxMs)
        /\ (IF phase = "open" THEN Use(Tr[l].rc, Tr[l].obs.ms) ELSE UNCHANGED rvars)
        /\ UNCHANGED rss0 /\ l' = l + 1
TClose == /\ Tr[l].e = "close"
          /\ (IF phase = "open" THEN Close(Tr[l].rc) ELSE UNCHANGED rvars)
          /\ UNCHANGED rss0 /\ l' = l + 1
TNext == l <= Len(Tr) /\ (TReset \/ TMark \/ TOpen \/ TUse \/ TClose)
TraceSpec == Init /\ l = 1 /\ rss0 = 0 /\ [][TNext]_<<rvars, l, rss0>>
TraceAccepted ==
    LET n == TLCGet("stats").diameter - 1 IN
    /\ PrintT(<<"TRACE_MATCHED", n>>)
    /\ n = Len(Tr)
=============================================================================
