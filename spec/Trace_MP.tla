------------------------------ MODULE Trace_MP ------------------------------
(* Trace validation for MP (C05, C08): per step, the per-rank return codes, every rank's record count,
   the header's record count and the record data decoded from the file, the data read back, and the
   per-rank sequences of MPI collective operations (recorded by the PMPI shim) which must be pairwise
   identical in every collective call. *)
EXTENDS MP, Json, IOUtils

VARIABLES l
Tr == ndJsonDeserialize(IOEnv.TRACE)
tvars == <<vars, l>>
W == 2                                  \* row length of the record variable of the fixture

TraceN == Tr[1].np
Chk(name, c) == IF c THEN TRUE ELSE (PrintT(<<"FAILED", name, l>>) /\ FALSE)
Same(a, b) == ToString(a) = ToString(b)

ClassOf(a) ==
    IF a.v # 1 THEN "enotvar"
    ELSE IF a.start[2] < 0 \/ a.start[2] > W \/ (a.start[2] = W /\ a.count[2] > 0) \/ a.start[1] < 0 THEN "einvalcoords"
    ELSE IF a.count[1] < 0 \/ a.count[2] < 0 THEN "enegcnt"
    ELSE IF a.start[2] + a.count[2] > W THEN "eedge"
    ELSE IF "stride" \in DOMAIN a /\ (a.stride[1] <= 0 \/ a.stride[2] <= 0) THEN "estride"
    ELSE IF a.count[1] = 0 \/ a.count[2] = 0 THEN "zero"
    ELSE "valid"

(* mvals: what the values passed become in the file (an unrepresentable one becomes the fill value); erange marks such a call *)
ValsOf(a) == IF "mvals" \in DOMAIN a THEN a.mvals ELSE a.vals
ArgOf(a) ==
    LET c == ClassOf(a)
        base == IF c # "valid" THEN [cls |-> c, rec |-> 0, nrec |-> 0, tok |-> <<>>]
                ELSE [cls |-> "valid", rec |-> a.start[1], nrec |-> a.count[1],
                      tok |-> IF "vals" \in DOMAIN a
                                THEN AsSeq([k \in 1..a.count[1] |-> <<ValsOf(a)[2 * k - 1], ValsOf(a)[2 * k]>>])
                                ELSE AsSeq([k \in 1..a.count[1] |-> <<0, 0>>])]
    IN IF "erange" \in DOMAIN a /\ c = "valid" THEN [cls |-> base.cls, rec |-> base.rec, nrec |-> base.nrec, tok |-> base.tok, erange |-> TRUE]
       ELSE base

RK(ev) == ev.rk
ByRank(ev, p) == CHOOSE i \in 1..Len(ev.rk) : ev.rk[i].r = p
AllRanks(ev) == Len(ev.rk) = N /\ \A p \in Ranks : \E i \in 1..Len(ev.rk) : ev.rk[i].r = p
RcFn(ev) == [p \in Ranks |-> ev.rk[ByRank(ev, p)].rc]

(* MPI collective operations recorded for one rank during the call: name, communicator size, root *)
CollNames == {"Bcast", "Allreduce", "Reduce", "Barrier", "Allgather", "Gather", "Gatherv", "Alltoall",
              "Comm_dup", "Comm_split", "Comm_split_type", "Comm_free", "File_open", "File_close", "File_set_view",
              "File_sync", "File_set_size", "File_write_at_all", "File_read_at_all", "File_write_all", "File_read_all"}
(* the explicit-offset and the file-pointer form of a collective transfer take part in the same collective
   operation on the file handle (a rank with nothing to transfer uses the latter) *)
Norm(nm) == CASE nm = "File_write_at_all" -> "File_write_all" [] nm = "File_read_at_all" -> "File_read_all" [] OTHER -> nm
CollSeq(m) == SelectSeq(AsSeq([i \in 1..Len(m) |-> <<Norm(m[i][1]), m[i][2], m[i][3]>>]), LAMBDA x : x[1] \in CollNames)
(* C08: in a collective call all ranks execute the same sequence of collective operations *)
MpiMatch(ev) ==
    \A i, j \in 1..Len(ev.rk) :
        ("mpi" \in DOMAIN ev.rk[i].obs /\ "mpi" \in DOMAIN ev.rk[j].obs)
           => CollSeq(ev.rk[i].obs.mpi) = CollSeq(ev.rk[j].obs.mpi)

RowMatch(tok, vals, k) ==       \* record k-1 of a flat value list against the model row
    tok = <<>> \/ (Same(tok[1], vals[2 * k - 1]) /\ Same(tok[2], vals[2 * k]))

ObsOK(ev) ==
    /\ Chk("numrecs", \A i \in 1..Len(ev.rk) :
            ("numrecs" \in DOMAIN ev.rk[i].obs) => ev.rk[i].obs.numrecs = numrecs'[ev.rk[i].r])
    /\ Chk("disknumrecs", \A i \in 1..Len(ev.rk) :
            ("disknumrecs" \in DOMAIN ev.rk[i].obs /\ ev.rk[i].r = 0 /\ ~indep') => ev.rk[i].obs.disknumrecs = disk')
    /\ Chk("diskdata", \A i \in 1..Len(ev.rk) :
            ("disk" \in DOMAIN ev.rk[i].obs /\ ev.rk[i].r = 0) =>
                "error" \notin DOMAIN ev.rk[i].obs.disk /\
                LET dd == ev.rk[i].obs.disk.vars[2].data IN
                \A k \in 1..MaxRec : (2 * k <= Len(dd)) => RowMatch(rows'[k], dd, k))

TReset ==
    /\ Tr[l].e \in {"Reset", "Header"}
    /\ numrecs' = [p \in Ranks |-> 0] /\ disk' = 0 /\ indep' = FALSE
    /\ rows' = AsSeq([i \in 1..MaxRec |-> <<>>]) /\ Q' = [p \in Ranks |-> <<>>]
    /\ highest' = 0 /\ mine' = [p \in Ranks |-> 0] /\ hist' = <<>>
    /\ l' = l + 1

IsSetup(ev) == "setup" \in DOMAIN ev.rk[1].a \/ "disagree" \in DOMAIN ev.rk[1].a
TSetup ==
    /\ Tr[l].e \notin {"Reset", "Header"} /\ "setup" \in DOMAIN Tr[l].rk[1].a
    /\ \A i \in 1..Len(Tr[l].rk) : Tr[l].rk[i].rc = "NC_NOERR"
    /\ l' = l + 1 /\ UNCHANGED vars

Mode(ev) == IF "mode" \in DOMAIN ev.rk[1].a THEN ev.rk[1].a.mode ELSE "none"
KindOf(ev) == IF "kind" \in DOMAIN ev.rk[1].a THEN ev.rk[1].a.kind ELSE "blocking"

TCollPut ==
    /\ Tr[l].e = "put" /\ ~IsSetup(Tr[l]) /\ Mode(Tr[l]) = "coll" /\ KindOf(Tr[l]) = "blocking"
    /\ LET ev == Tr[l] IN
         /\ Chk("allranks", AllRanks(ev))
         /\ CollPut([p \in Ranks |-> ArgOf(ev.rk[ByRank(ev, p)].a)], RcFn(ev))
         /\ Chk("mpimatch", MpiMatch(ev))
         /\ ObsOK(ev)
    /\ l' = l + 1

TCollGet ==
    /\ Tr[l].e = "get" /\ ~IsSetup(Tr[l]) /\ Mode(Tr[l]) = "coll" /\ KindOf(Tr[l]) = "blocking"
    /\ LET ev == Tr[l] IN
         /\ Chk("allranks", AllRanks(ev))
         /\ CollGet([p \in Ranks |-> ArgOf(ev.rk[ByRank(ev, p)].a)], RcFn(ev))
         /\ Chk("mpimatch", MpiMatch(ev))
         \* a rank whose request is valid and succeeded received the records of the model
         /\ Chk("get.buf", \A i \in 1..Len(ev.rk) :
               LET a == ArgOf(ev.rk[i].a) IN
               (a.cls = "valid" /\ ev.rk[i].rc = "NC_NOERR") =>
                   \A k \in 1..a.nrec : RowMatch(rows[a.rec + k], ev.rk[i].out.buf, k))
         /\ ObsOK(ev)
    /\ l' = l + 1

TIndepPut ==
    /\ Tr[l].e = "put" /\ ~IsSetup(Tr[l]) /\ Mode(Tr[l]) = "indep" /\ KindOf(Tr[l]) = "blocking"
    /\ LET ev == Tr[l] IN
         /\ Len(ev.rk) = 1
         /\ IndepPut(ev.rk[1].r, ArgOf(ev.rk[1].a), ev.rk[1].rc)
         /\ ObsOK(ev)
    /\ l' = l + 1

TPost ==
    /\ Tr[l].e = "put" /\ ~IsSetup(Tr[l]) /\ KindOf(Tr[l]) # "blocking"
    /\ LET ev == Tr[l] IN
         /\ Len(ev.rk) = 1 /\ ev.rk[1].rc = "NC_NOERR"
         /\ Post(ev.rk[1].r, ev.rk[1].a.req, ArgOf(ev.rk[1].a))
         /\ ObsOK(ev)
    /\ l' = l + 1

(* labels of rank p named by a wait *)
NamedBy(a, p) == IF "special" \in DOMAIN a THEN {Q[p][i].lab : i \in 1..Len(Q[p])}
                 ELSE {a.reqs[i] : i \in 1..Len(a.reqs)} \cap {Q[p][i].lab : i \in 1..Len(Q[p])}
TWait ==
    /\ Tr[l].e = "wait" /\ ~IsSetup(Tr[l])
    /\ LET ev == Tr[l] IN
         IF Mode(ev) = "coll"
           THEN /\ Chk("allranks", AllRanks(ev))
                /\ WaitAll([p \in Ranks |-> NamedBy(ev.rk[ByRank(ev, p)].a, p)], RcFn(ev))
                /\ Chk("mpimatch", MpiMatch(ev))
                /\ ObsOK(ev)
           ELSE /\ Len(ev.rk) = 1
                /\ LET p == ev.rk[1].r IN WaitIndep(p, NamedBy(ev.rk[1].a, p), ev.rk[1].rc)
                /\ ObsOK(ev)
    /\ l' = l + 1

SyncName(ev) == CASE ev.e = "end_indep" -> "end_indep" [] ev.e = "sync" -> "sync" [] ev.e = "sync_numrecs" -> "sync_numrecs"
                  [] ev.e = "redef" -> "redef_enddef" [] ev.e = "close" -> "reopen"
TSync ==
    /\ Tr[l].e \in {"end_indep", "sync", "sync_numrecs", "redef", "close"} /\ ~IsSetup(Tr[l])
    /\ LET ev == Tr[l] IN
         /\ Chk("allranks", AllRanks(ev))
         /\ Chk("rc", \A i \in 1..Len(ev.rk) : ev.rk[i].rc = "NC_NOERR")
         /\ SyncCall(SyncName(ev))
         /\ Chk("mpimatch", MpiMatch(ev))
         /\ ObsOK(ev)
    /\ l' = l + 1

(* calls that change nothing the model tracks (begin_indep switches the mode) *)
TOther ==
    /\ Tr[l].e \in {"begin_indep", "enddef", "open", "abort"} /\ ~IsSetup(Tr[l])
    /\ LET ev == Tr[l] IN
         /\ Chk("allranks", AllRanks(ev))
         /\ Chk("rc", \A i \in 1..Len(ev.rk) : ev.rk[i].rc = "NC_NOERR")
         /\ IF ev.e = "begin_indep" THEN BeginIndep ELSE UNCHANGED vars
         /\ Chk("mpimatch", MpiMatch(ev))
         /\ ObsOK(ev)
    /\ l' = l + 1

TFill ==
    /\ Tr[l].e = "fill_var_rec" /\ ~IsSetup(Tr[l])
    /\ LET ev == Tr[l] IN
         /\ Chk("allranks", AllRanks(ev))
         /\ FillRec(ev.rk[1].a.rec, <<ev.rk[1].a.fill, ev.rk[1].a.fill>>, RcFn(ev))
         /\ Chk("mpimatch", MpiMatch(ev))
         /\ ObsOK(ev)
    /\ l' = l + 1

(* C08, last sentence: with safe mode on, a collective metadata call whose arguments disagree between the
   processes reports one and the same error on every process *)
TMetaDisagree ==
    /\ Tr[l].e \notin {"Reset", "Header"} /\ "disagree" \in DOMAIN Tr[l].rk[1].a
    /\ LET ev == Tr[l] IN
         /\ Chk("allranks", AllRanks(ev))
         /\ Chk("same error everywhere", \A i \in 1..Len(ev.rk) : ev.rk[i].rc = ev.rk[1].rc /\ ev.rk[i].rc # "NC_NOERR")
         /\ Chk("mpimatch", MpiMatch(ev))
    /\ UNCHANGED vars /\ l' = l + 1

TNext == l <= Len(Tr) /\ (TMetaDisagree \/ TReset \/ TSetup \/ TCollPut \/ TCollGet \/ TIndepPut \/ TPost \/ TWait \/ TSync \/ TOther \/ TFill)
TInit == l = 1 /\ Init
TraceSpec == TInit /\ [][TNext]_tvars
TraceAccepted ==
    LET n == TLCGet("stats").diameter - 1 IN
    /\ PrintT(<<"TRACE_MATCHED", n>>)
    /\ n = Len(Tr)
=============================================================================
