---------------------------- MODULE Trace_Hints ----------------------------
(* Trace validation for Hints (C10, last clause): every call recorded from the real library is a step of Hints with the
   logged arguments; inq_file_info must report exactly the values the specification holds in force, and the layout the
   library reports after each enddef (header extent, variable offsets) must be the one those values dictate. *)
EXTENDS Hints, Json, IOUtils, FiniteSets

VARIABLES l
Tr == ndJsonDeserialize(IOEnv.TRACE)
tvars == <<hvars, l>>
Chk(name, c) == IF c THEN TRUE ELSE (PrintT(<<"FAILED", name, l>>) /\ FALSE)

Q(ev) == ev.a.q
OK(ev) == Chk("rc", ev.rc = "NC_NOERR")

InitVals == /\ phase = "closed" /\ isnew = FALSE /\ req = [h |-> 0, v |-> 0, r |-> 0, ibuf |-> 0, swap |-> "none", hash |-> 0, aggr |-> 0]
            /\ eff = AtOpen(req) /\ vars = <<>> /\ exists = FALSE /\ ext = 0 /\ brec = 0 /\ fresh = FALSE /\ hist = <<>>

TReset ==
    /\ Tr[l].e = "Reset" /\ l' = l + 1
    /\ phase' = "closed" /\ isnew' = FALSE /\ req' = [h |-> 0, v |-> 0, r |-> 0, ibuf |-> 0, swap |-> "none", hash |-> 0, aggr |-> 0]
    /\ eff' = AtOpen(req') /\ vars' = <<>> /\ exists' = FALSE /\ ext' = 0 /\ brec' = 0 /\ fresh' = FALSE /\ hist' = <<>>

(* fixture calls (dimension definitions): must succeed, no model step *)
TSetup == /\ Tr[l].e # "Reset" /\ "setup" \in DOMAIN Tr[l].a /\ OK(Tr[l])
          /\ l' = l + 1 /\ UNCHANGED hvars

Rec(ev) == {i \in 1..Len(vars) : vars[i] = "r"}
MinOf(S) == CHOOSE x \in S : \A y \in S : x <= y
(* start of the record section as the library reports it: the smallest offset of a record variable *)
BRec(ev) == IF Rec(ev) = {} THEN 0 ELSE MinOf({ev.out.offs[i] : i \in Rec(ev)})
Fix(ev) == {i \in 1..Len(vars) : vars[i] = "f"}

Str(n) == ToString(n)
Has(info, k) == k \in DOMAIN info
(* what inq_file_info hands back against the values in force *)
InfoOK(info) ==
    /\ Chk("info.ibuf", Has(info, "nc_ibuf_size") /\ info["nc_ibuf_size"] = Str(Reported.ibuf))
    /\ Chk("info.swap", Has(info, "nc_in_place_swap") /\ info["nc_in_place_swap"] = Reported.swap)
    /\ Chk("info.hash", req.hash > 0 => /\ info["nc_hash_size_dim"] = Str(Reported.hash)
                                        /\ info["nc_hash_size_var"] = Str(Reported.hash)
                                        /\ info["nc_hash_size_gattr"] = Str(Reported.hash)
                                        /\ info["nc_hash_size_vattr"] = Str(Reported.hash))
    /\ Chk("info.hashdefault", req.hash = 0 => info["nc_hash_size_dim"] = Str(DefaultHash) /\ info["nc_hash_size_var"] = Str(DefaultHash))
    /\ Chk("info.aggr", info["nc_num_aggrs_per_node"] = Str(Reported.aggr))
    /\ Reported.h > 0 =>
         /\ Chk("info.h_align", info["nc_header_align_size"] = Str(Reported.h))
         /\ Chk("info.v_align", info["nc_var_align_size"] = Str(Reported.v))
         /\ Chk("info.r_align", info["nc_record_align_size"] = Str(Reported.r))

TCall ==
    /\ Tr[l].e # "Reset" /\ "setup" \notin DOMAIN Tr[l].a
    /\ LET ev == Tr[l] IN
        CASE ev.e = "create"  -> OK(ev) /\ Create(Q(ev))
          [] ev.e = "open"    -> OK(ev) /\ Open(Q(ev))
          [] ev.e = "def_var" -> OK(ev) /\ DefVar(ev.a.k)
          [] ev.e = "enddef"  -> OK(ev) /\ Enddef([v |-> 0, r |-> 0])
          [] ev.e = "_enddef" -> OK(ev) /\ Enddef([v |-> ev.a.v_align, r |-> ev.a.r_align])
          [] ev.e = "redef"   -> OK(ev) /\ Redef
          [] ev.e = "close"   -> OK(ev) /\ Close
          [] ev.e = "inq_file_info" -> OK(ev) /\ InfoOK(ev.out.info) /\ InqInfo
          [] ev.e = "inq_layout" ->
                /\ OK(ev)
                /\ Chk("layout.nvars", Len(ev.out.offs) = Len(vars))
                \* the header extent is where the first variable starts
                /\ Chk("layout.extent", Fix(ev) # {} => ev.out.hextent = MinOf({ev.out.offs[i] : i \in Fix(ev)}))
                /\ Chk("layout.inforce", LayoutOK(ev.out.hextent, BRec(ev)))
                /\ InqLayout(ev.out.hextent, BRec(ev))
          [] OTHER -> Chk("unknown event", FALSE)
    /\ l' = l + 1

TNext == l <= Len(Tr) /\ (TReset \/ TSetup \/ TCall)
TraceSpec == InitVals /\ l = 1 /\ [][TNext]_tvars
TraceAccepted ==
    LET n == TLCGet("stats").diameter - 1 IN
    /\ PrintT(<<"TRACE_MATCHED", n>>)
    /\ n = Len(Tr)
=============================================================================
