------------------------------- MODULE Limits -------------------------------
(***************************************************************************)
(* C18.  Format size limits and 64-bit addressing.                         *)
(*                                                                         *)
(* One file being defined, then written at chosen element positions.      *)
(* All byte counts are Wide numbers (module Wide): exact up to 2^80.       *)
(*                                                                         *)
(* A variable is [isrec, xsz, n0, L]: element size, a small leading extent *)
(* n0 (1 for a one-dimensional variable) and a last dimension of length L  *)
(* (for a record variable the record dimension comes in front of these).   *)
(*                                                                         *)
(* The rules are those of the netCDF/PnetCDF documentation:                *)
(*  CDF-1: every variable begins below 2^31; a fixed-size variable needs   *)
(*         at most 2^31-4 bytes unless it is the last fixed-size variable  *)
(*         and there is no record variable; a record variable needs at     *)
(*         most 2^31-4 bytes per record unless it is the last one.         *)
(*  CDF-2: the same with 2^32-4, no limit on the offsets.                  *)
(*  CDF-5: sizes below 2^63.                                               *)
(*  def_dim: lengths are non-negative; CDF-1/2 at most 2^31-1 (netCDF-C    *)
(*         says 2^31-4: lengths in between are left open).                 *)
(***************************************************************************)
EXTENDS Wide, Integers, FiniteSets, TLC

CONSTANTS HLo, HHi,      \* bounds on the header size of the schemas used (bytes)
          KeepHist

VARIABLES fmt, mode, vars, begins, recsize, written, hist
vv == <<fmt, mode, vars, begins, recsize, written, hist>>
H(r) == IF KeepHist THEN Append(hist, r) ELSE <<r>>

VLimit(f) == IF f = 1 THEN WSub4(W2p31) ELSE IF f = 2 THEN WSub4(W2p32) ELSE WSub4(W2p63)
VSize(v) == WRoundUp4(WScale(WScale(v.L, v.xsz), v.n0))         \* bytes (per record for a record variable), padded
RawSize(v) == WScale(WScale(v.L, v.xsz), v.n0)
Big(f, v) == ~WLe(VSize(v), VLimit(f))

FixedIdx(vs) == {i \in 1..Len(vs) : ~vs[i].isrec}
RecIdx(vs)   == {i \in 1..Len(vs) : vs[i].isrec}
LastOf(S) == CHOOSE x \in S : \A y \in S : y <= x

(* per-variable size rule *)
VlenOK(f, vs) ==
    /\ f = 5 => \A i \in 1..Len(vs) : ~Big(f, vs[i])
    /\ \A i \in FixedIdx(vs) : Big(f, vs[i]) => (i = LastOf(FixedIdx(vs)) /\ RecIdx(vs) = {})
    /\ \A i \in RecIdx(vs)   : Big(f, vs[i]) => i = LastOf(RecIdx(vs))

(* layout order: fixed-size variables in definition order, then the record variables *)
Before(vs, i) == IF vs[i].isrec THEN FixedIdx(vs) \cup {j \in RecIdx(vs) : j < i}
                               ELSE {j \in FixedIdx(vs) : j < i}
RECURSIVE WSum(_, _)
WSum(vs, S) == IF S = {} THEN WZero ELSE LET x == CHOOSE y \in S : TRUE IN WAdd(VSize(vs[x]), WSum(vs, S \ {x}))
BaseOff(vs, i) == WSum(vs, Before(vs, i))             \* bytes of data in front of variable i

(* a variable must begin below 2^31 in CDF-1 (32-bit signed begin field); in every format the library addresses the file
   with signed 64-bit offsets, so every byte of a fixed-size variable / of the first record of a record variable must lie
   below 2^63 *)
BadOff(f, vs, h) ==
    \/ f = 1 /\ \E i \in 1..Len(vs) : WLe(W2p31, WAdd(WSmall(h), BaseOff(vs, i)))
    \/ \E i \in 1..Len(vs) : WLe(W2p63, WAdd(WAdd(WSmall(h), BaseOff(vs, i)), VSize(vs[i])))
MustFailBegin(f, vs) == BadOff(f, vs, HLo)
MayFailBegin(f, vs)  == BadOff(f, vs, HHi)

EnddefRc(f, vs) ==
    IF ~VlenOK(f, vs) \/ MustFailBegin(f, vs) THEN {"NC_EVARSIZE"}
    ELSE IF MayFailBegin(f, vs) THEN {"NC_NOERR", "NC_EVARSIZE"}
    ELSE {"NC_NOERR"}

(* what an accepted definition's layout (the begins and record size the library reports / the file holds) must satisfy *)
RecSizeOK(vs, rs) ==
    LET R == RecIdx(vs) IN
    IF R = {} THEN TRUE
    ELSE \/ rs = WSum(vs, R)
         \/ (Cardinality(R) = 1 /\ rs = RawSize(vs[LastOf(R)]))      \* a lone record variable is not padded

LayoutOK(f, vs, bg, rs) ==
    /\ Len(bg) = Len(vs)
    /\ \A i \in 1..Len(vs) :
         /\ WLe(WSmall(HLo), bg[i])
         /\ ~vs[i].isrec => WMod4(bg[i]) = 0
         /\ f = 1 => WLt(bg[i], W2p31)
         /\ WLt(WAdd(bg[i], VSize(vs[i])), W2p63) \/ WAdd(bg[i], VSize(vs[i])) = W2p63
         /\ \A j \in Before(vs, i) : WLe(WAdd(bg[j], VSize(vs[j])), bg[i])
    /\ RecSizeOK(vs, rs)

(* byte offset of element (rec; i, j) of variable v: i indexes the small leading extent, j the long dimension *)
OffsetOf(vs, bg, rs, v, rec, i, j) ==
    LET lin == WAdd(WScale(vs[v].L, i), j) IN
    WAdd(bg[v], WAdd(IF vs[v].isrec THEN WScale(rs, rec) ELSE WZero, WScale(lin, vs[v].xsz)))

DimRc(f, len, neg) ==
    IF neg THEN {"NC_EDIMSIZE"}
    ELSE IF f = 5 THEN {"NC_NOERR"}
    ELSE IF WLe(len, WSub4(W2p31)) THEN {"NC_NOERR"}
    ELSE IF WLt(len, W2p31) THEN {"NC_NOERR", "NC_EDIMSIZE"}        \* 2^31-3 .. 2^31-1: documentation differs
    ELSE {"NC_EDIMSIZE"}

(***************************************************************************)
(* actions                                                                 *)
(***************************************************************************)
Create(f) ==
    /\ fmt' = f /\ mode' = "def" /\ vars' = <<>> /\ begins' = <<>> /\ recsize' = WZero /\ written' = {}
    /\ hist' = H([c |-> "create", fmt |-> f])

DefDim(len, neg, rc) ==
    /\ mode = "def" /\ rc \in DimRc(fmt, len, neg)
    /\ UNCHANGED <<fmt, mode, vars, begins, recsize, written>>
    /\ hist' = H([c |-> "def_dim", len |-> len, neg |-> neg, rc |-> rc])

(* a variable whose size cannot be held in 63 bits may already be refused when it is defined *)
DefVar(v, rc) ==
    /\ mode = "def"
    /\ rc \in (IF ~WLe(VSize(v), WSub4(W2p63)) THEN {"NC_EVARSIZE", "NC_NOERR"} ELSE {"NC_NOERR"})
    /\ vars' = IF rc = "NC_NOERR" THEN Append(vars, v) ELSE vars
    /\ UNCHANGED <<fmt, mode, begins, recsize, written>>
    /\ hist' = H([c |-> "def_var", v |-> v, rc |-> rc])

Enddef(rc, bg, rs) ==
    /\ mode = "def"
    /\ rc \in EnddefRc(fmt, vars)
    /\ IF rc = "NC_NOERR"
         THEN /\ LayoutOK(fmt, vars, bg, rs)
              /\ mode' = "data" /\ begins' = bg /\ recsize' = rs
         ELSE mode' = "def" /\ UNCHANGED <<begins, recsize>>
    /\ UNCHANGED <<fmt, vars, written>>
    /\ hist' = H([c |-> "enddef", rc |-> rc])

(* a block of Len(rows) rows starting at (rec; i, j): row r holds the bytes of its elements (i + r - 1; j, j+1, ...) *)
Put(v, rec, i, j, rows) ==
    /\ mode = "data"
    /\ LET new == {[off |-> OffsetOf(vars, begins, recsize, v, rec, i + r - 1, j), hexb |-> rows[r]] : r \in 1..Len(rows)} IN
       written' = {w \in written : \A n \in new : w.off # n.off} \cup new
    /\ UNCHANGED <<fmt, mode, vars, begins, recsize>>
    /\ hist' = H([c |-> "put", v |-> v, rec |-> rec, i |-> i, j |-> j])

(* the bytes of the file that are not zero: offset -> byte *)
ByteSet(off, hexb) == {<<WAdd(off, WSmall(k - 1)), hexb[k]>> : k \in 1..Len(hexb)}
NonZeroBytes == UNION {ByteSet(w.off, w.hexb) : w \in written}

(* what a read of n bytes at off returns: the bytes written there, zeros where nothing was written *)
ByteAt(o) == IF \E p \in NonZeroBytes : p[1] = o THEN (CHOOSE p \in NonZeroBytes : p[1] = o)[2] ELSE "00"
BytesAt(off, n) == [k \in 1..n |-> ByteAt(WAdd(off, WSmall(k - 1)))]

Init == fmt = 1 /\ mode = "closed" /\ vars = <<>> /\ begins = <<>> /\ recsize = WZero /\ written = {} /\ hist = <<>>
=============================================================================
