------------------------------ MODULE Files_MC ------------------------------
EXTENDS Files, Json
View == state
Emit == PrintT("EMIT " \o ToJson([h |-> hist', chg |-> (state' # state)]))
ReachFull == ~(Cardinality(Open) = MaxFiles /\ \E f \in Labels : files[f].pend > 0 /\ \E g \in Labels : IsStale(g))
=============================================================================
