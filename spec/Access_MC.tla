----------------------------- MODULE Access_MC -----------------------------
(* C01 generator: blocking put/get of EVERY legal (start,count,stride) request over variables of
   0..5 dimensions (fixed and record), on top of the Data model.  Used in simulation mode. *)
EXTENDS Data, Json, Randomization

CONSTANT Depth
VARIABLE tk

AVarTab == << [shape |-> <<>>,              rec |-> FALSE, xsz |-> 4],    \* 0: scalar
              [shape |-> <<5>>,             rec |-> FALSE, xsz |-> 4],    \* 1: V1[5]
              [shape |-> <<3, 4>>,          rec |-> FALSE, xsz |-> 4],    \* 2: V2[3][4]
              [shape |-> <<2, 3, 2>>,       rec |-> FALSE, xsz |-> 4],    \* 3: V3[2][3][2]
              [shape |-> <<3, 3>>,          rec |-> TRUE,  xsz |-> 4],    \* 4: R2[t][3]   (capacity 3 records)
              [shape |-> <<3, 2, 2>>,       rec |-> TRUE,  xsz |-> 4],    \* 5: R3[t][2][2]
              [shape |-> <<2, 1, 2, 1, 2>>, rec |-> FALSE, xsz |-> 4],    \* 6: V5
              [shape |-> <<3>>,             rec |-> TRUE,  xsz |-> 4] >>  \* 7: R1[t]

(* a file with exactly one record variable (records are then not padded to 4 bytes) *)
BVarTab == << [shape |-> <<5>>,    rec |-> FALSE, xsz |-> 4],      \* 0: V1[5]
              [shape |-> <<3, 3>>, rec |-> TRUE,  xsz |-> 1] >>    \* 1: R2[t][3]  (1- or 2-byte type)

(* longer extents in other than the fastest dimension: strided requests with three and more rows / planes *)
CVarTab == << [shape |-> <<5, 3>>,    rec |-> FALSE, xsz |-> 4],      \* 0: W2[5][3]
              [shape |-> <<3, 5, 2>>, rec |-> TRUE,  xsz |-> 4],      \* 1: S3[t][5][2]
              [shape |-> <<7>>,       rec |-> FALSE, xsz |-> 4] >>    \* 2: W1[7]

(* all legal (start, count, stride) triples of one dimension of length n *)
DimOpts(n) == {t \in (0..(n - 1)) \X (1..n) \X (1..2) : t[1] + (t[2] - 1) * t[3] <= n - 1}

RECURSIVE Opts(_, _)
Opts(shape, d) ==     \* set of sequences of per-dimension triples
    IF d > Len(shape) THEN {<<>>}
    ELSE {<<o>> \o rest : o \in DimOpts(shape[d]), rest \in Opts(shape, d + 1)}

ReqsOf(v) == {[v |-> v, subs |-> << [start  |-> AsSeq([d \in 1..Len(o) |-> o[d][1]]),
                                     count  |-> AsSeq([d \in 1..Len(o) |-> o[d][2]]),
                                     stride |-> AsSeq([d \in 1..Len(o) |-> o[d][3]])] >>] : o \in Opts(Shape(v), 1)}

(* list-of-subarrays requests: two or three random unit-stride subarrays of one variable *)
UnitSubs(v) == {r.subs[1] : r \in {q \in ReqsOf(v) : \A d \in 1..Len(q.subs[1].stride) : q.subs[1].stride[d] = 1}}
VarnReqs(v) == {[v |-> v, subs |-> <<a, b>>] : a \in RandomSubset(1, UnitSubs(v)), b \in RandomSubset(1, UnitSubs(v))}
               \cup {[v |-> v, subs |-> <<a, b, c>>] : a \in RandomSubset(1, UnitSubs(v)), b \in RandomSubset(1, UnitSubs(v)), c \in RandomSubset(1, UnitSubs(v))}
ToSet(s) == {s[i] : i \in 1..Len(s)}
NoDup(r) == Cardinality(ToSet(Elems(r))) = Len(Elems(r))

Toks(r) == AsSeq([k \in 1..Len(Elems(r)) |-> tk * 10 + k])

ANext ==
    \/ \E v \in 0..(NV - 1) : \E r \in ReqsOf(v) : BPut(r, Toks(r), ReqErr(r, FALSE)) /\ tk' = tk + 1
    \/ \E v \in 0..(NV - 1) : \E r \in ReqsOf(v) : ReqErr(r, TRUE) = "NC_NOERR" /\ BGet(r, "NC_NOERR") /\ tk' = tk
    \/ \E v \in 1..(NV - 1) : \E r \in VarnReqs(v) : NoDup(r) /\ BPut(r, Toks(r), ReqErr(r, FALSE)) /\ tk' = tk + 1
    \* (sub-requests of a read list that overlap each other fall under the recorded overlapping-read finding of C02)
    \/ \E v \in 1..(NV - 1) : \E r \in VarnReqs(v) : NoDup(r) /\ ReqErr(r, TRUE) = "NC_NOERR" /\ BGet(r, "NC_NOERR") /\ tk' = tk
    \* close and reopen: the logical content is what it was
    \/ /\ Len(hist) > 0 /\ hist[Len(hist)].c # "reopen"
       /\ UNCHANGED state /\ hist' = H([c |-> "reopen"]) /\ tk' = tk

AInit == Init /\ tk = 1
ASpec == AInit /\ [][ANext]_<<vars, tk>>
EmitEnd == Len(hist') # Depth \/ PrintT("EMIT " \o ToJson([h |-> hist', chg |-> TRUE]))
=============================================================================
