---------------------------- MODULE Trace_Fault ----------------------------
(* Trace validation for Fault (C11): per step and rank the PMPI shim reports how many MPI-IO data transfers the
   library issued and whether the armed failure fired; the rank's return code (or, for a wait, any status) tells
   whether the failure was reported. *)
EXTENDS Fault, Json, IOUtils

VARIABLES l
Tr == ndJsonDeserialize(IOEnv.TRACE)
tvars == <<vars, l>>
TraceN == Tr[1].np
Chk(name, c) == IF c THEN TRUE ELSE (PrintT(<<"FAILED", name, l>>) /\ FALSE)

ByRank(ev, p) == CHOOSE i \in 1..Len(ev.rk) : ev.rk[i].r = p
Has(ev, p) == \E i \in 1..Len(ev.rk) : ev.rk[i].r = p
Errs(e) == e.rc # "NC_NOERR" \/ ("st" \in DOMAIN e.out /\ \E i \in 1..Len(e.out.st) : e.out.st[i] # "NC_NOERR")

TReset ==
    /\ Tr[l].e \in {"Reset", "Header"}
    /\ armed' = [rank |-> -1, k |-> 0] /\ done' = [p \in Ranks |-> 0] /\ fired' = FALSE /\ reported' = FALSE /\ hist' = <<>>
    /\ l' = l + 1

TArm ==
    /\ Tr[l].e = "shim"
    /\ Arm(Tr[l].rk[1].a.rank, Tr[l].rk[1].a.kth)
    /\ l' = l + 1

(* transfers issued in this step = difference of the shim's counter *)
TStep ==
    /\ Tr[l].e \notin {"Reset", "Header", "shim", "ABNORMAL"}     \* (a rank that never returned ends the trace: rejected)
    /\ \E i \in 1..Len(Tr[l].rk) : Tr[l].rk[i].rc # "SKIPPED"
    /\ LET ev == Tr[l]
           io == [p \in Ranks |-> IF Has(ev, p) /\ "io" \in DOMAIN ev.rk[ByRank(ev, p)].obs
                                    THEN ev.rk[ByRank(ev, p)].obs.io.count - done[p] ELSE 0]
           err == [p \in Ranks |-> Has(ev, p) /\ Errs(ev.rk[ByRank(ev, p)])]
       IN /\ Chk("counter", \A p \in Ranks : io[p] >= 0)
          /\ Step(io, err)
          \* the shim's own account of the injection agrees with the model's
          /\ Chk("fired", \A p \in Ranks : (Has(ev, p) /\ "io" \in DOMAIN ev.rk[ByRank(ev, p)].obs /\ p = armed.rank)
                              => (ev.rk[ByRank(ev, p)].obs.io.fired = 1) = fired')
    /\ l' = l + 1

(* steps the harness did not execute because the program ended where the failure fired *)
TSkipped ==
    /\ Tr[l].e \notin {"Reset", "Header", "shim", "ABNORMAL"}
    /\ \A i \in 1..Len(Tr[l].rk) : Tr[l].rk[i].rc = "SKIPPED"
    /\ UNCHANGED vars /\ l' = l + 1

TNext == l <= Len(Tr) /\ (TReset \/ TArm \/ TSkipped \/ TStep)
TInit == l = 1 /\ Init
TraceSpec == TInit /\ [][TNext]_tvars
TraceAccepted ==
    LET n == TLCGet("stats").diameter - 1 IN
    /\ PrintT(<<"TRACE_MATCHED", n>>)
    /\ n = Len(Tr)
=============================================================================
