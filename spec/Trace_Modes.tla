---------------------------- MODULE Trace_Modes ----------------------------
(* Trace validation for Modes: every event recorded from the real library must be a step
   the specification allows, and the observations logged after the call (dispatcher and
   driver mode flags, inquiry results, pending requests, buffer, file bytes) must equal the
   specification's state. *)
EXTENDS Modes, Json, IOUtils

VARIABLES l, sha      \* position in the trace; digest of the file bytes after the last call

Tr == ndJsonDeserialize(IOEnv.TRACE)

tvars == <<vars, l, sha>>

(* concrete event -> model call (binding by the arguments actually used) *)
ToCall(ev) ==
    CASE ev.e \in {"enddef", "redef", "begin_indep", "end_indep", "close", "abort", "def_dim", "def_var",
                   "del_att", "def_var_fill", "sync", "sync_numrecs", "flush", "fill_var_rec", "inq"}
                                   -> [c |-> ev.e]
      [] ev.e = "put_att"          -> [c |-> IF ev.a.name = "ga" THEN "put_att_same" ELSE "put_att_new"]
      [] ev.e = "set_fill"         -> [c |-> "set_fill", m |-> ev.a.fill]
      [] ev.e = "rename_var"       -> [c |-> "rename_var", n |-> ev.a.new]
      [] ev.e \in {"put", "get"}   ->
            IF "kind" \in DOMAIN ev.a
              THEN [c |-> IF ev.a.kind = "b" THEN "bput" ELSE IF ev.e = "put" THEN "iput" ELSE "iget"]
              ELSE [c |-> ev.e, m |-> ev.a.mode]
      [] ev.e = "wait"             -> [c |-> "wait", m |-> ev.a.mode]
      [] ev.e = "cancel"           -> [c |-> "cancel"]
      [] ev.e = "buffer_attach"    -> [c |-> "attach"]
      [] ev.e = "buffer_detach"    -> [c |-> "detach"]
      [] ev.e = "inq_buffer"       -> [c |-> "inq_buffer"]

B2N(b) == IF b THEN 1 ELSE 0

(* observations after the call against the primed model state *)
ObsOK(ev) ==
    LET o == ev.obs IN
    IF mode' = "closed"
      THEN /\ o.st = [rc |-> "NC_EBADID"]                  \* the id is released
           /\ o.exists = B2N(exists')
      ELSE /\ o.st.dmode = mode' /\ o.st.nmode = mode'     \* dispatcher and driver agree with the model
           /\ o.st.dro = B2N(ro') /\ o.st.nro = B2N(ro')
           /\ o.st.nnew = B2N(fresh')
           /\ o.nreqs = Cardinality(pend')
           /\ (o.st.asize >= 0) = abuf'
           /\ o.inq.ndims = 2 + B2N(xdim')
           /\ o.inq.nvars = 2 + B2N(xvar')
           /\ o.inq.ngatts = B2N(ga') + B2N(xatt')
           /\ o.inq.vnames[1] = vname'
           /\ o.exists = 1

TReset ==
    /\ Tr[l].e = "Reset"
    /\ l' = l + 1 /\ sha' = "none"
    /\ mode' = "closed" /\ ro' = FALSE /\ fresh' = FALSE /\ abuf' = FALSE /\ pend' = {}
    /\ xdim' = FALSE /\ xvar' = FALSE /\ xatt' = FALSE /\ ga' = TRUE /\ vname' = "fv"
    /\ fillm' = "NOFILL" /\ exists' = FALSE /\ hist' = <<>>

(* fixture calls made by the harness before the first modelled call: must all succeed *)
TSetup ==
    /\ Tr[l].e # "Reset" /\ Tr[l].e # "mark"
    /\ "setup" \in DOMAIN Tr[l].a
    /\ Tr[l].rc = "NC_NOERR"
    /\ l' = l + 1 /\ UNCHANGED <<vars, sha>>

TStart ==
    /\ Tr[l].e = "mark"
    /\ LET s == Tr[l].a.s IN
         /\ s \in {"created", "openrw", "openro"}
         /\ mode' = (IF s = "created" THEN "def" ELSE "coll")
         /\ ro' = (s = "openro") /\ fresh' = (s = "created")
         /\ abuf' = FALSE /\ pend' = {} /\ xdim' = FALSE /\ xvar' = FALSE /\ xatt' = FALSE
         /\ ga' = TRUE /\ vname' = "fv" /\ fillm' = "NOFILL" /\ exists' = TRUE
         /\ hist' = <<>>
         /\ ObsOK(Tr[l])
    /\ sha' = Tr[l].obs.sha
    /\ l' = l + 1

TCall ==
    /\ Tr[l].e \notin {"Reset", "mark"}
    /\ "setup" \notin DOMAIN Tr[l].a
    /\ LET ev == Tr[l]  c == ToCall(ev) IN
         /\ Call(c, ev.rc)
         /\ ObsOK(ev)
         /\ (c.c = "set_fill" /\ ev.rc = "NC_NOERR") => ev.out.old = fillm
         \* a rejected call leaves the bytes of the file untouched
         /\ (ev.rc # "NC_NOERR" /\ c.c \notin {"close", "abort"}) => ev.obs.sha = sha
         /\ sha' = ev.obs.sha
    /\ l' = l + 1

TNext == l <= Len(Tr) /\ (TReset \/ TSetup \/ TStart \/ TCall)

TInit == l = 1 /\ sha = "none" /\ mode = "closed" /\ ro = FALSE /\ fresh = FALSE /\ abuf = FALSE /\ pend = {}
         /\ xdim = FALSE /\ xvar = FALSE /\ xatt = FALSE /\ ga = TRUE /\ vname = "fv"
         /\ fillm = "NOFILL" /\ exists = FALSE /\ hist = <<>>

TraceSpec == TInit /\ [][TNext]_tvars

TraceAccepted ==
    LET n == TLCGet("stats").diameter - 1 IN
    /\ PrintT(<<"TRACE_MATCHED", n>>)
    /\ n = Len(Tr)
=============================================================================
