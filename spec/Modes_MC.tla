------------------------------ MODULE Modes_MC ------------------------------
(* exhaustive design check and behaviour generation for Modes *)
EXTENDS Modes, Json
View == state
(* ACTION_CONSTRAINT: one line per generated transition, carrying the (shortest, because of
   BFS + VIEW) history that reaches the source state followed by the call just made *)
Emit == PrintT("EMIT " \o ToJson([h |-> hist', chg |-> (state' # state)]))
(* simulation: print only complete walks *)
SimDepth == 28
EmitEnd == (Len(hist') # SimDepth /\ mode' # "closed") \/ PrintT("EMIT " \o ToJson([h |-> hist', chg |-> TRUE]))
(* smoke target for vacuity control: a state the invariants talk about must be reachable *)
Reach1 == ~(mode = "indep" /\ "pb" \in pend /\ abuf)
=============================================================================
