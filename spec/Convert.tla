------------------------------ MODULE Convert ------------------------------
(***************************************************************************)
(* C09: decision rule of numeric conversion and range checking.            *)
(*                                                                         *)
(* A transfer moves a sequence of elements from a source type to a         *)
(* destination type.  Each element carries its class with respect to the   *)
(* destination: "in" (representable: converted exactly; the exact result   *)
(* exp is computed by the harness with arbitrary-precision arithmetic),    *)
(* "out" (not representable), or "exempt" (an unsigned char 128..255 and a *)
(* signed-byte external variable, or the reverse: representable only       *)
(* thanks to the classic-format signed-byte/unsigned-char exemption).      *)
(*                                                                         *)
(* Result: NC_ECHAR iff exactly one side is text; else NC_ERANGE iff some  *)
(* element is not representable; every representable element is delivered *)
(* exactly, every other one becomes the fill value (the variable's on      *)
(* write, the memory type's default on read).                              *)
(***************************************************************************)
EXTENDS Naturals, Sequences, TLC

IsOut(fmt, cls) == cls = "out" \/ (cls = "exempt" /\ fmt = 5)

Rc(srcText, dstText, fmt, cls) ==
    IF srcText # dstText THEN "NC_ECHAR"
    ELSE IF \E k \in 1..Len(cls) : IsOut(fmt, cls[k]) THEN "NC_ERANGE"
    ELSE "NC_NOERR"

(* what the destination must hold afterwards; "?" = unconstrained (nothing is transferred on NC_ECHAR) *)
Delivered(srcText, dstText, fmt, cls, exp, fill) ==
    [k \in 1..Len(cls) |-> IF srcText # dstText THEN "?"
                           ELSE IF IsOut(fmt, cls[k]) THEN fill ELSE exp[k]]

(* elements of one call are independent of each other: a range error of one leaves the others exact *)
OthersUnaffected(fmt, cls, exp, fill) ==
    \A k \in 1..Len(cls) : ~IsOut(fmt, cls[k]) => Delivered(FALSE, FALSE, fmt, cls, exp, fill)[k] = exp[k]
=============================================================================
