------------------------------- MODULE Modes -------------------------------
(***************************************************************************)
(* C14: API mode state machine and error precedence of one open file.      *)
(*                                                                         *)
(* One action per public call kind ("probe" calls of every API family and  *)
(* the mode-changing calls).  Call(c, rc) is enabled iff rc is a return    *)
(* code the documentation allows for call c in the current state; a call   *)
(* that does not return NC_NOERR leaves every variable unchanged (except   *)
(* close, which releases the file even when it reports NC_EPENDING).       *)
(*                                                                         *)
(* The fixture file (built by the harness before the first modelled call): *)
(*   dims t(unlimited), x(4); vars fv(int,[x]), rv(int,[t,x]);             *)
(*   global attribute ga = "abcd".                                         *)
(***************************************************************************)
EXTENDS Naturals, Sequences, FiniteSets, TLC

CONSTANTS Starts,         \* subset of {"created", "openrw", "openro"}
          KeepHist        \* TRUE: hist is the whole history (generation); FALSE: only the last call (long traces)

VARIABLES
    mode,      \* "def" | "coll" | "indep" | "closed"
    ro,        \* file opened read-only
    fresh,     \* created in this session and the first enddef has not happened
    abuf,      \* a buffer is attached
    pend,      \* pending nonblocking requests: subset of {"pi","pb","pg"}
    xdim, xvar, xatt, \* has the extra dimension / variable / attribute been defined
    ga,        \* global attribute "ga" still exists
    vname,     \* current name of variable 0: "fv" | "fw" | "fvlong"
    fillm,     \* dataset fill mode "NOFILL" | "FILL"
    exists,    \* the file exists on disk
    hist       \* ghost: calls so far (hidden from the state by VIEW)

vars  == <<mode, ro, fresh, abuf, pend, xdim, xvar, xatt, ga, vname, fillm, exists, hist>>
state == <<mode, ro, fresh, abuf, pend, xdim, xvar, xatt, ga, vname, fillm, exists>>

H(r) == IF KeepHist THEN Append(hist, r) ELSE <<r>>

Calls ==
    { [c |-> "enddef"], [c |-> "redef"], [c |-> "begin_indep"], [c |-> "end_indep"],
      [c |-> "close"], [c |-> "abort"],
      [c |-> "def_dim"], [c |-> "def_var"], [c |-> "put_att_new"], [c |-> "put_att_same"],
      [c |-> "del_att"], [c |-> "set_fill", m |-> "FILL"], [c |-> "set_fill", m |-> "NOFILL"],
      [c |-> "def_var_fill"],
      [c |-> "rename_var", n |-> "fw"], [c |-> "rename_var", n |-> "fvlong"], [c |-> "rename_var", n |-> "fv"],
      [c |-> "put", m |-> "coll"], [c |-> "put", m |-> "indep"],
      [c |-> "get", m |-> "coll"], [c |-> "get", m |-> "indep"],
      [c |-> "iput"], [c |-> "iget"], [c |-> "bput"],
      [c |-> "wait", m |-> "coll"], [c |-> "wait", m |-> "indep"], [c |-> "cancel"],
      [c |-> "sync"], [c |-> "sync_numrecs"], [c |-> "flush"], [c |-> "fill_var_rec"],
      [c |-> "attach"], [c |-> "detach"], [c |-> "inq_buffer"], [c |-> "inq"] }

NameLen(n) == IF n = "fvlong" THEN 6 ELSE 2

(* First applicable error in the documented order; "NC_NOERR" when none.    *)
(* Each entry is <<condition, code>>.                                       *)
First(seq) ==
    LET idx == {i \in 1..Len(seq) : seq[i][1]} IN
    IF idx = {} THEN "NC_NOERR" ELSE seq[CHOOSE i \in idx : \A j \in idx : i <= j][2]

InDef   == mode = "def"
InData  == mode \in {"coll", "indep"}

RoDef == {"NC_EPERM", "NC_ENOTINDEFINE"}

(* the set of acceptable return codes of call c in the current state *)
Allowed(c) ==
    CASE c.c = "enddef"      -> {First(<< <<~InDef, "NC_ENOTINDEFINE">> >>)}
      [] c.c = "redef"       -> {First(<< <<ro, "NC_EPERM">>, <<InDef, "NC_EINDEFINE">> >>)}
      [] c.c = "begin_indep" -> {First(<< <<InDef, "NC_EINDEFINE">> >>)}
      [] c.c = "end_indep"   -> {First(<< <<InDef, "NC_EINDEFINE">> >>)}
      [] c.c = "close"       -> {IF pend # {} THEN "NC_EPENDING" ELSE "NC_NOERR"}
      \* the documentation does not say whether abort reports the requests it cancels
      [] c.c = "abort"       -> IF pend # {} THEN {"NC_NOERR", "NC_EPENDING"} ELSE {"NC_NOERR"}
      \* A precedence between NC_EPERM and NC_ENOTINDEFINE is documented only for the put-attribute calls
      \* (DEVELOPER_NOTES "NC error code precedence").  A read-only file is never in define mode, so for the
      \* other define-mode calls both codes are true of the state and either is accepted (RoDef).
      [] c.c = "def_dim"     -> IF ro THEN RoDef ELSE {First(<< <<~InDef, "NC_ENOTINDEFINE">>, <<xdim, "NC_ENAMEINUSE">> >>)}
      [] c.c = "def_var"     -> IF ro THEN RoDef ELSE {First(<< <<~InDef, "NC_ENOTINDEFINE">>, <<xvar, "NC_ENAMEINUSE">> >>)}
      [] c.c = "put_att_new" -> {First(<< <<ro, "NC_EPERM">>, <<~InDef /\ ~xatt, "NC_ENOTINDEFINE">> >>)}
      [] c.c = "put_att_same"-> {First(<< <<ro, "NC_EPERM">>, <<~InDef /\ ~ga, "NC_ENOTINDEFINE">> >>)}
      [] c.c = "del_att"     -> IF ro THEN RoDef ELSE {First(<< <<~InDef, "NC_ENOTINDEFINE">>, <<~ga, "NC_ENOTATT">> >>)}
      [] c.c = "set_fill"    -> IF ro THEN RoDef ELSE {First(<< <<~InDef, "NC_ENOTINDEFINE">> >>)}
      \* no precedence is documented for this call: on a read-only file (never in define mode) both
      \* errors are true of the state
      [] c.c = "def_var_fill"-> IF ro THEN RoDef
                                ELSE {First(<< <<~InDef, "NC_ENOTINDEFINE">> >>)}
      [] c.c = "rename_var"  -> {First(<< <<ro, "NC_EPERM">>, <<c.n = vname, "NC_ENAMEINUSE">>,
                                          <<~InDef /\ NameLen(c.n) > NameLen(vname), "NC_ENOTINDEFINE">> >>)}
      [] c.c = "put"         -> {First(<< <<ro, "NC_EPERM">>, <<InDef, "NC_EINDEFINE">>,
                                          <<c.m = "coll" /\ mode = "indep", "NC_EINDEP">>,
                                          <<c.m = "indep" /\ mode = "coll", "NC_ENOTINDEP">> >>)}
      [] c.c = "get"         -> {First(<< <<InDef, "NC_EINDEFINE">>,
                                          <<c.m = "coll" /\ mode = "indep", "NC_EINDEP">>,
                                          <<c.m = "indep" /\ mode = "coll", "NC_ENOTINDEP">> >>)}
      [] c.c = "iput"        -> {First(<< <<ro, "NC_EPERM">> >>)}
      [] c.c = "iget"        -> {"NC_NOERR"}
      [] c.c = "bput"        -> {First(<< <<ro, "NC_EPERM">>, <<~abuf, "NC_ENULLABUF">> >>)}
      [] c.c = "wait"        -> {First(<< <<InDef, "NC_EINDEFINE">>,
                                          <<c.m = "coll" /\ mode = "indep", "NC_EINDEP">>,
                                          <<c.m = "indep" /\ mode = "coll", "NC_ENOTINDEP">> >>)}
      [] c.c = "cancel"      -> {"NC_NOERR"}
      [] c.c = "sync"        -> {First(<< <<InDef, "NC_EINDEFINE">> >>)}
      \* the documentation is silent on sync_numrecs for a read-only file: success or NC_EPERM
      [] c.c = "sync_numrecs"-> IF ro THEN {"NC_NOERR", "NC_EPERM"} ELSE {First(<< <<InDef, "NC_EINDEFINE">> >>)}
      \* the documentation is silent on flush in define mode: success or the true-of-the-state error
      [] c.c = "flush"       -> IF InDef THEN {"NC_NOERR", "NC_EINDEFINE"} ELSE {"NC_NOERR"}
      [] c.c = "fill_var_rec"-> {First(<< <<ro, "NC_EPERM">>, <<InDef, "NC_EINDEFINE">>, <<mode = "indep", "NC_EINDEP">> >>)}
      [] c.c = "attach"      -> {First(<< <<abuf, "NC_EPREVATTACHBUF">> >>)}
      [] c.c = "detach"      -> {First(<< <<~abuf, "NC_ENULLABUF">>, <<"pb" \in pend, "NC_EPENDINGBPUT">> >>)}
      [] c.c = "inq_buffer"  -> {First(<< <<~abuf, "NC_ENULLABUF">> >>)}
      [] c.c = "inq"         -> {"NC_NOERR"}

(* effect of a successful call *)
Effect(c) ==
    CASE c.c = "enddef"      -> /\ mode' = "coll" /\ fresh' = FALSE
                                /\ UNCHANGED <<ro, abuf, pend, xdim, xvar, xatt, ga, vname, fillm, exists>>
      [] c.c = "redef"       -> /\ mode' = "def"
                                /\ UNCHANGED <<ro, fresh, abuf, pend, xdim, xvar, xatt, ga, vname, fillm, exists>>
      [] c.c = "begin_indep" -> /\ mode' = "indep"
                                /\ UNCHANGED <<ro, fresh, abuf, pend, xdim, xvar, xatt, ga, vname, fillm, exists>>
      [] c.c = "end_indep"   -> /\ mode' = "coll"
                                /\ UNCHANGED <<ro, fresh, abuf, pend, xdim, xvar, xatt, ga, vname, fillm, exists>>
      [] c.c = "def_dim"     -> /\ xdim' = TRUE
                                /\ UNCHANGED <<mode, ro, fresh, abuf, pend, xvar, xatt, ga, vname, fillm, exists>>
      [] c.c = "def_var"     -> /\ xvar' = TRUE
                                /\ UNCHANGED <<mode, ro, fresh, abuf, pend, xdim, xatt, ga, vname, fillm, exists>>
      [] c.c = "put_att_new" -> /\ xatt' = TRUE
                                /\ UNCHANGED <<mode, ro, fresh, abuf, pend, xdim, xvar, ga, vname, fillm, exists>>
      [] c.c = "put_att_same"-> /\ ga' = TRUE
                                /\ UNCHANGED <<mode, ro, fresh, abuf, pend, xdim, xvar, xatt, vname, fillm, exists>>
      [] c.c = "del_att"     -> /\ ga' = FALSE
                                /\ UNCHANGED <<mode, ro, fresh, abuf, pend, xdim, xvar, xatt, vname, fillm, exists>>
      [] c.c = "set_fill"    -> /\ fillm' = c.m
                                /\ UNCHANGED <<mode, ro, fresh, abuf, pend, xdim, xvar, xatt, ga, vname, exists>>
      [] c.c = "rename_var"  -> /\ vname' = c.n
                                /\ UNCHANGED <<mode, ro, fresh, abuf, pend, xdim, xvar, xatt, ga, fillm, exists>>
      [] c.c = "iput"        -> /\ pend' = pend \cup {"pi"}
                                /\ UNCHANGED <<mode, ro, fresh, abuf, xdim, xvar, xatt, ga, vname, fillm, exists>>
      [] c.c = "iget"        -> /\ pend' = pend \cup {"pg"}
                                /\ UNCHANGED <<mode, ro, fresh, abuf, xdim, xvar, xatt, ga, vname, fillm, exists>>
      [] c.c = "bput"        -> /\ pend' = pend \cup {"pb"}
                                /\ UNCHANGED <<mode, ro, fresh, abuf, xdim, xvar, xatt, ga, vname, fillm, exists>>
      [] c.c \in {"wait", "cancel"} ->
                                /\ pend' = {}
                                /\ UNCHANGED <<mode, ro, fresh, abuf, xdim, xvar, xatt, ga, vname, fillm, exists>>
      [] c.c = "attach"      -> /\ abuf' = TRUE
                                /\ UNCHANGED <<mode, ro, fresh, pend, xdim, xvar, xatt, ga, vname, fillm, exists>>
      [] c.c = "detach"      -> /\ abuf' = FALSE
                                /\ UNCHANGED <<mode, ro, fresh, pend, xdim, xvar, xatt, ga, vname, fillm, exists>>
      [] OTHER               -> UNCHANGED state

(* a request label is posted at most once at a time (the harness uses fixed labels) *)
Enabled(c) ==
    /\ mode # "closed"
    /\ c.c = "iput" => "pi" \notin pend
    /\ c.c = "iget" => "pg" \notin pend
    /\ c.c = "bput" => "pb" \notin pend

Call(c, rc) ==
    /\ Enabled(c)
    /\ rc \in Allowed(c)
    /\ IF c.c \in {"close", "abort"}
         THEN /\ mode' = "closed"
              /\ pend' = {}
              /\ abuf' = FALSE
              /\ exists' = IF c.c = "abort" /\ fresh THEN FALSE ELSE exists
              /\ UNCHANGED <<ro, fresh, xdim, xvar, xatt, ga, vname, fillm>>
         ELSE IF rc = "NC_NOERR" THEN Effect(c) ELSE UNCHANGED state
    /\ hist' = H([c |-> c, rc |-> rc])

InitOf(s) ==
    /\ mode = IF s = "created" THEN "def" ELSE "coll"
    /\ ro = (s = "openro")
    /\ fresh = (s = "created")
    /\ abuf = FALSE /\ pend = {} /\ xdim = FALSE /\ xvar = FALSE /\ xatt = FALSE
    /\ ga = TRUE /\ vname = "fv" /\ fillm = "NOFILL" /\ exists = TRUE

Init == /\ \E s \in Starts : InitOf(s) /\ hist = <<[c |-> [c |-> "start", s |-> s], rc |-> "NC_NOERR"]>>

Next == \E c \in Calls : \E rc \in Allowed(c) : Call(c, rc)

Spec == Init /\ [][Next]_vars

(***************************************************************************)
(* Properties                                                              *)
(***************************************************************************)
TypeOK ==
    /\ mode \in {"def", "coll", "indep", "closed"}      \* exactly one mode at any time
    /\ ro \in BOOLEAN /\ fresh \in BOOLEAN /\ abuf \in BOOLEAN
    /\ pend \subseteq {"pi", "pb", "pg"}
    /\ fresh => mode \in {"def", "closed"}

(* a read-only file is never in define mode and never has write requests *)
ReadOnlySafe == ro => (mode # "def" /\ "pi" \notin pend /\ "pb" \notin pend)

(* a buffered put needs an attached buffer *)
BputNeedsBuffer == ("pb" \in pend) => abuf

ModeChangers == {"enddef", "redef", "begin_indep", "end_indep", "close", "abort"}

(* only the mode-changing calls change the mode; a rejected call changes nothing *)
OnlyChangers ==
    [][ LET last == hist'[Len(hist')] IN
          /\ (mode' # mode => last.c.c \in ModeChangers)
          /\ (last.rc # "NC_NOERR" /\ last.c.c \notin {"close", "abort"} => state' = state)
      ]_vars
=============================================================================
