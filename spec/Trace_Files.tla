---------------------------- MODULE Trace_Files ----------------------------
(* Trace validation for Files (C17): ids issued, bad-id answers, isolation between open
   files, state of the files on disk, and resource balance whenever nothing is open. *)
EXTENDS Files, Json, IOUtils

VARIABLES l
Tr == ndJsonDeserialize(IOEnv.TRACE)
tvars == <<vars, l>>

(* labels used by the trace (substituted for the constant Labels in the trace config) *)
(* the harness lists them in a header line so that they need not be collected here *)
TraceLabels == {Tr[1].labels[i] : i \in 1..Len(Tr[1].labels)}

(* in a trace any operation name may be used on a stale id *)
AnyOp == {Tr[1].staleops[i] : i \in 1..Len(Tr[1].staleops)}

Mode2(m) == IF m = "def" THEN "def" ELSE "data"

ObsOK(ev) ==
    LET o == ev.obs IN
    /\ ("files" \in DOMAIN o) =>
       /\ Len(o.files) = Cardinality({f \in Labels : files'[f].mode # "closed"})
       /\ \A i \in 1..Len(o.files) :
         LET e == o.files[i]  m == files'[e.f] IN
           /\ m.mode # "closed"
           /\ e.rc = "NC_NOERR"
           /\ e.ncid = m.id
           /\ e.ndims = m.nd
           /\ e.nvars = (IF m.hasvar THEN 1 ELSE 0)
           /\ e.nreqs = m.pend
           /\ Mode2(e.dmode) = m.mode /\ Mode2(e.nmode) = m.mode
           /\ e.nopen = Len(o.files)                      \* the table's own count of open files
    /\ ("diskall" \in DOMAIN o) => \A i \in 1..Len(o.diskall) :
         LET e == o.diskall[i] IN
           /\ (e.exists = 1) = (disk'[e.f] >= 0)
           /\ (disk'[e.f] >= 0 /\ files'[e.f].mode # "def") => (e.ndims = disk'[e.f] /\ (e.nvars = 1) = diskv'[e.f])
    \* nothing open: the library owns no heap memory and no MPI objects
    /\ ("quiet" \in DOMAIN o /\ {f \in Labels : files'[f].mode # "closed"} = {}) =>
          /\ o.quiet.heap = 0 /\ o.quiet.types = 0 /\ o.quiet.infos = 0
          /\ o.quiet.comms = 0 /\ o.quiet.files = 0

TReset ==
    /\ Tr[l].e \in {"Reset", "Header"}
    /\ files' = [f \in Labels |-> Closed] /\ lastid' = [f \in Labels |-> -1]
    /\ disk' = [f \in Labels |-> -1] /\ diskv' = [f \in Labels |-> FALSE] /\ hist' = <<>>
    /\ l' = l + 1

TCall ==
    /\ Tr[l].e \notin {"Reset", "Header"}
    /\ LET ev == Tr[l]  f == ev.a.f  rc == ev.rc IN
         /\ IF "stale" \in DOMAIN ev.a
              THEN Stale(f, ev.a.stale, rc)
              ELSE CASE ev.e = "create"  -> Create(f, rc) /\ (rc = "NC_NOERR" => ev.out.ncid = files'[f].id)
                     [] ev.e = "open"    -> OpenFile(f, rc) /\ (rc = "NC_NOERR" => ev.out.ncid = files'[f].id)
                     [] ev.e = "close"   -> Close(f, rc)
                     [] ev.e = "abort"   -> Abort(f, rc)
                     [] ev.e = "def_dim" -> DefDim(f, rc)
                     [] ev.e = "def_var" -> DefVar(f, rc)
                     [] ev.e = "enddef"  -> Enddef(f, rc)
                     [] ev.e = "get"     -> IGet(f, rc)
                     [] OTHER -> FALSE
         /\ ObsOK(ev)
    /\ l' = l + 1

TNext == l <= Len(Tr) /\ (TReset \/ TCall)
TInit == l = 1 /\ Init
TraceSpec == TInit /\ [][TNext]_tvars

TraceAccepted ==
    LET n == TLCGet("stats").diameter - 1 IN
    /\ PrintT(<<"TRACE_MATCHED", n>>)
    /\ n = Len(Tr)
=============================================================================
