----------------------------- MODULE Robust_MC -----------------------------
EXTENDS Robust
S0 == [unlim |-> -1, dims |-> <<>>, gatts |-> <<>>, vars |-> <<>>]
Next == \/ \E rc \in {"NC_NOERR", "NC_ENOTNC"} : Open(rc, S0, 1, 0, 0)
        \/ \E rc \in {"NC_NOERR", "NC_EINVALCOORDS"} : Use(rc, 1)
        \/ \E rc \in {"NC_NOERR"} : Close(rc)
Spec == Init /\ [][Next]_rvars
=============================================================================
