------------------------------ MODULE Hints_MC ------------------------------
(* bounded instance of Hints: design check and behaviour generator (random walks) *)
EXTENDS Hints, Json
View == <<phase, isnew, req, eff, vars, ext, brec, exists, fresh>>
SimDepth == 14
EmitEnd == (Len(hist') # SimDepth) \/ PrintT("EMIT " \o ToJson([h |-> hist']))
(* vacuity: a redefinition of an opened file whose layout was inspected must be reachable *)
Reach1 == ~(phase = "data" /\ ~isnew /\ ext > 0 /\ brec > 0 /\ eff.h > 4 /\ Len(vars) = 3)
=============================================================================
