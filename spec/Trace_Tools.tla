---------------------------- MODULE Trace_Tools ----------------------------
(* Trace validation for Tools (C20): the content of every file involved (as encoded / as written through the API), then
   the exit status or parsed output of every run of ncvalidator, cdfdiff, ncmpidiff, ncoffsets, ncmpidump | ncmpigen *)
EXTENDS Tools, Json, IOUtils

VARIABLES l
Tr == ndJsonDeserialize(IOEnv.TRACE)
Chk(name, c) == IF c THEN TRUE ELSE (PrintT(<<"FAILED", name, l>>) /\ FALSE)

TReset == Tr[l].e \in {"Reset", "Header"} /\ files' = Empty /\ hist' = <<>> /\ l' = l + 1
TLoad == Tr[l].e = "load" /\ Load(Tr[l].id, Tr[l].content, Tr[l].valid, Tr[l].begins) /\ l' = l + 1
TValidate == /\ Tr[l].e = "validate"
             /\ Chk("validator", Tr[l].id \in DOMAIN files /\ (Tr[l].exit = 0) = files[Tr[l].id].valid)
             /\ Validate(Tr[l].id, Tr[l].exit = 0) /\ l' = l + 1
TDiff == /\ Tr[l].e = "diff"
         /\ Chk("diff.ran", Tr[l].exit \in {0, 1})
         /\ Chk("diff.verdict", (Tr[l].exit = 0) = LogicalEq(files[Tr[l].a].content, files[Tr[l].b].content))
         /\ Diff(Tr[l].a, Tr[l].b, Tr[l].exit = 0) /\ l' = l + 1
TOffsets == /\ Tr[l].e = "offsets"
            /\ Chk("offsets.ran", Tr[l].exit = 0)
            /\ Chk("offsets", Tr[l].reported = files[Tr[l].id].begins)
            /\ Offsets(Tr[l].id, Tr[l].reported) /\ l' = l + 1
TRegen == /\ Tr[l].e = "regen"
          /\ Chk("regen.ran", Tr[l].exit = 0)
          /\ Chk("regen.content", LogicalEq(files[Tr[l].id].content, Tr[l].content))
          /\ Regen(Tr[l].id, Tr[l].content) /\ l' = l + 1

TNext == l <= Len(Tr) /\ (TReset \/ TLoad \/ TValidate \/ TDiff \/ TOffsets \/ TRegen)
TraceSpec == Init /\ l = 1 /\ [][TNext]_<<files, hist, l>>
TraceAccepted ==
    LET n == TLCGet("stats").diameter - 1 IN
    /\ PrintT(<<"TRACE_MATCHED", n>>)
    /\ n = Len(Tr)
=============================================================================
