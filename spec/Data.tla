-------------------------------- MODULE Data --------------------------------
(***************************************************************************)
(* Logical content of the variables of one open file in data mode, seen by *)
(* one process: blocking put/get through every access form (C01), the      *)
(* nonblocking request queue and its completion (C02), the attached buffer *)
(* accounting (C13), argument checking (C15) and the record count seen by  *)
(* this process.                                                           *)
(*                                                                         *)
(* A variable is a function from linear (row-major) element index to a     *)
(* token; U is "never written" (reads of U are unconstrained: no fill).    *)
(* Every access form reduces to a sequence of linear indices in the order  *)
(* in which the caller's buffer supplies / receives the elements: Elems.   *)
(***************************************************************************)
EXTENDS Naturals, Integers, Sequences, FiniteSets, TLC

CONSTANTS
    VarTab,     \* sequence of [shape, rec, xsz]: shape[1] of a record variable is the capacity MaxRec
    KeepHist,
    TailOnly    \* named deviation of the implementation (known finding): space of a completed or cancelled
                \* buffered put is reclaimed only when it is at the tail of the attached buffer.
                \* FALSE = the property (usage == bytes of the pending buffered puts)

U == -1                     \* token of an element that was never written

VARIABLES
    data,       \* data[v+1][i+1]: token of element i of variable v
    numrecs,    \* record count seen by this process
    Q,          \* pending nonblocking requests, in posting order
    abuf,       \* [size |-> attached bytes or -1, used |-> bytes of pending buffered puts]
    slots,      \* attached-buffer slots in allocation order: [lab, bytes, live] (used by TailOnly only)
    hist

vars  == <<data, numrecs, Q, abuf, slots, hist>>
state == <<data, numrecs, Q, abuf, slots>>

H(r) == IF KeepHist THEN Append(hist, r) ELSE <<r>>

NV == Len(VarTab)
Shape(v) == VarTab[v + 1].shape
IsRec(v) == VarTab[v + 1].rec
Rank(v)  == Len(Shape(v))

RECURSIVE ProdFrom(_, _)
ProdFrom(s, i) == IF i > Len(s) THEN 1 ELSE s[i] * ProdFrom(s, i + 1)
Cap(v)    == ProdFrom(Shape(v), 1)                       \* number of elements the model holds
RowLen(v) == ProdFrom(Shape(v), 2)                       \* elements per record (record variables)

(* k-th (0-based) element of the request (start, count, stride), row-major over count *)
RECURSIVE LinOf(_, _, _, _, _, _)
LinOf(shape, start, count, stride, k, d) ==
    IF d > Len(shape) THEN 0
    ELSE LET inner == ProdFrom(count, d + 1)
             c == start[d] + ((k \div inner) % count[d]) * stride[d]
         IN  c * ProdFrom(shape, d + 1) + LinOf(shape, start, count, stride, k, d + 1)

(* force an explicit sequence value (TLC keeps [i \in 1..n |-> e] as a lazy function otherwise) *)
AsSeq(f) == <<>> \o f
Ones(n) == AsSeq([i \in 1..n |-> 1])

(* sequence of linear indices addressed by one subarray request, in buffer order *)
SubElems(v, start, count, stride) ==
    LET n == ProdFrom(count, 1) IN
    AsSeq([k \in 1..n |-> LinOf(Shape(v), start, count, stride, k - 1, 1)])

RECURSIVE Concat(_)
Concat(ss) == IF ss = <<>> THEN <<>> ELSE Head(ss) \o Concat(Tail(ss))

(* highest record index touched by a subarray request, -1 if none *)
MaxRecOf(v, start, count, stride) ==
    IF ~IsRec(v) \/ ProdFrom(count, 1) = 0 THEN -1 ELSE start[1] + (count[1] - 1) * stride[1]

SetMax(S) == CHOOSE x \in S : \A y \in S : y <= x

(***************************************************************************)
(* Requests as the specification sees them: r = [v, subs] where subs is a  *)
(* sequence of [start, count, stride] (one entry except for varn).         *)
(***************************************************************************)
Elems(r)  == Concat(AsSeq([i \in 1..Len(r.subs) |-> SubElems(r.v, r.subs[i].start, r.subs[i].count, r.subs[i].stride)]))
MaxRec(r) == SetMax({-1} \cup {MaxRecOf(r.v, r.subs[i].start, r.subs[i].count, r.subs[i].stride) : i \in 1..Len(r.subs)})

(* el is a run of consecutive indices (whole variable, contiguous rows): fast path *)
IsRun(el) == Len(el) > 0 /\ \A k \in 1..Len(el) : el[k] = el[1] + k - 1

WriteSeq(d, v, el, tok) ==
    IF Len(el) = 0 THEN d
    ELSE IF IsRun(el)
      THEN [d EXCEPT ![v + 1] = AsSeq([i \in 1..Len(@) |->
                 IF i - 1 >= el[1] /\ i - 1 < el[1] + Len(el) THEN tok[i - el[1]] ELSE @[i]])]
      ELSE [d EXCEPT ![v + 1] = AsSeq([i \in 1..Len(@) |->
                 LET hits == {k \in 1..Len(el) : el[k] + 1 = i} IN
                 IF hits = {} THEN @[i] ELSE tok[SetMax(hits)]])]       \* last supplier wins

ReadSeq(d, v, el) == AsSeq([k \in 1..Len(el) |-> d[v + 1][el[k] + 1]])

Max(a, b) == IF a >= b THEN a ELSE b

(* argument check of one subarray request (relaxed coordinate bounds, the default build):
   first error in the documented order, "NC_NOERR" if the request is legal *)
DimLen(v, d, isread) == IF d = 1 /\ IsRec(v) THEN (IF isread THEN numrecs ELSE 1000000) ELSE Shape(v)[d]
(* The acceptable codes of one subarray request.  NC_EINVALCOORDS takes precedence over NC_EEDGE over NC_ESTRIDE
   (documented); no precedence is documented between NC_ENEGATIVECNT and NC_EEDGE: either, when both apply. *)
SubErrs(v, s, isread) ==
    LET n == Rank(v)
        L(d) == DimLen(v, d, isread)
        badcoord == {d \in 1..n : s.start[d] < 0 \/ s.start[d] > L(d) \/ (s.start[d] = L(d) /\ s.count[d] > 0)}
        negcnt   == {d \in 1..n : s.count[d] < 0}
        edge     == {d \in 1..n : s.count[d] > L(d) \/ s.start[d] + s.count[d] > L(d)
                                  \/ (s.count[d] > 0 /\ s.start[d] + (s.count[d] - 1) * s.stride[d] >= L(d))}
        badstr   == {d \in 1..n : s.stride[d] <= 0}
    IN  IF badcoord # {} THEN {"NC_EINVALCOORDS"}
        ELSE IF negcnt # {} \/ edge # {}
          THEN (IF negcnt # {} THEN {"NC_ENEGATIVECNT"} ELSE {}) \cup (IF edge # {} THEN {"NC_EEDGE"} ELSE {})
        ELSE IF badstr # {} THEN {"NC_ESTRIDE"}
        ELSE {"NC_NOERR"}

RECURSIVE FirstErrs(_)
FirstErrs(es) == IF es = <<>> THEN {"NC_NOERR"} ELSE IF Head(es) # {"NC_NOERR"} THEN Head(es) ELSE FirstErrs(Tail(es))
ReqErrs(r, isread) == FirstErrs(AsSeq([i \in 1..Len(r.subs) |-> SubErrs(r.v, r.subs[i], isread)]))
(* one representative (used by the generators) *)
ReqErr(r, isread) == CHOOSE e \in ReqErrs(r, isread) : TRUE

(***************************************************************************)
(* Blocking access                                                         *)
(***************************************************************************)
BPut(r, tok, rc) ==
    /\ rc \in ReqErrs(r, FALSE)
    /\ IF rc = "NC_NOERR"
         THEN /\ data' = WriteSeq(data, r.v, Elems(r), tok)
              /\ numrecs' = Max(numrecs, MaxRec(r) + 1)
         ELSE UNCHANGED <<data, numrecs>>
    /\ UNCHANGED <<Q, abuf, slots>>
    /\ hist' = H([c |-> "put", r |-> r, tok |-> tok, rc |-> rc])

(* expected content of the read buffer; U entries are unconstrained *)
BGetExpect(r) == ReadSeq(data, r.v, Elems(r))
BGet(r, rc) ==
    /\ rc \in ReqErrs(r, TRUE)
    /\ UNCHANGED state
    /\ hist' = H([c |-> "get", r |-> r, rc |-> rc])

(***************************************************************************)
(* Nonblocking requests                                                    *)
(***************************************************************************)
Labels == {Q[i].lab : i \in 1..Len(Q)}
Bytes(r) == Len(Elems(r)) * VarTab[r.v + 1].xsz
Used == LET idx == {i \in 1..Len(Q) : Q[i].kind = "bput"} IN
        IF idx = {} THEN 0 ELSE
        LET RECURSIVE Sum(_)
            Sum(S) == IF S = {} THEN 0 ELSE LET x == CHOOSE y \in S : TRUE IN Bytes(Q[x].r) + Sum(S \ {x})
        IN Sum(idx)

Post(kind, lab, r, tok, rc) ==
    /\ lab \notin Labels
    /\ LET es == ReqErrs(r, kind = "iget") IN
       IF es # {"NC_NOERR"} THEN rc \in es /\ UNCHANGED state
       ELSE IF kind = "bput" /\ abuf.size < 0 THEN rc = "NC_ENULLABUF" /\ UNCHANGED state
       ELSE IF kind = "bput" /\ abuf.size - abuf.used < Bytes(r) THEN rc = "NC_EINSUFFBUF" /\ UNCHANGED state
       ELSE /\ rc = "NC_NOERR"
            \* a zero-length request is not queued (the id returned is the null request)
            /\ Q' = IF Len(Elems(r)) = 0 THEN Q ELSE Append(Q, [lab |-> lab, kind |-> kind, r |-> r, tok |-> tok])
            /\ abuf' = IF kind = "bput" THEN [abuf EXCEPT !.used = @ + Bytes(r)] ELSE abuf
            /\ slots' = IF kind = "bput" /\ Len(Elems(r)) > 0
                           THEN Append(slots, [lab |-> lab, bytes |-> Bytes(r), live |-> TRUE]) ELSE slots
            /\ UNCHANGED <<data, numrecs>>
    /\ hist' = H([c |-> kind, lab |-> lab, r |-> r, tok |-> tok, rc |-> rc])

RECURSIVE ApplyPuts(_, _)
ApplyPuts(d, qs) == IF qs = <<>> THEN d
                    ELSE ApplyPuts(IF Head(qs).kind = "iget" THEN d ELSE WriteSeq(d, Head(qs).r.v, Elems(Head(qs).r), Head(qs).tok), Tail(qs))

Sel(named) == SelectSeq(Q, LAMBDA q : q.lab \in named)
Rest(named) == SelectSeq(Q, LAMBDA q : q.lab \notin named)
BputBytes(qs) == LET RECURSIVE S(_)
                     S(x) == IF x = <<>> THEN 0 ELSE (IF Head(x).kind = "bput" THEN Bytes(Head(x).r) ELSE 0) + S(Tail(x))
                 IN S(qs)

(* TailOnly: mark the slots of the named requests dead, then drop the dead slots at the tail *)
RECURSIVE DropDeadTail(_)
DropDeadTail(sl) == IF sl = <<>> \/ sl[Len(sl)].live THEN sl ELSE DropDeadTail(SubSeq(sl, 1, Len(sl) - 1))
Release(named) == DropDeadTail(AsSeq([i \in 1..Len(slots) |-> IF slots[i].lab \in named THEN [slots[i] EXCEPT !.live = FALSE] ELSE slots[i]]))
SlotBytes(sl) == LET RECURSIVE S(_)
                     S(x) == IF x = <<>> THEN 0 ELSE Head(x).bytes + S(Tail(x))
                 IN S(sl)
UsedAfter(named, sel) == IF TailOnly THEN SlotBytes(Release(named)) ELSE abuf.used - BputBytes(sel)

(* wait / wait_all on the requests named (pending labels); puts are carried out before gets *)
Wait(named, rc) ==
    /\ named \subseteq Labels
    /\ rc = "NC_NOERR"
    /\ LET sel == Sel(named) IN
         /\ data' = ApplyPuts(data, sel)
         /\ numrecs' = Max(numrecs, SetMax({-1} \cup {MaxRec(sel[i].r) : i \in {j \in 1..Len(sel) : sel[j].kind # "iget"}}) + 1)
         /\ Q' = Rest(named)
         /\ abuf' = [abuf EXCEPT !.used = UsedAfter(named, sel)]
         /\ slots' = Release(named)
    /\ hist' = H([c |-> "wait", named |-> named, rc |-> rc])

(* what a completed read request must have delivered, evaluated in the state after the wait *)
GetExpectAfter(q) == ReadSeq(data', q.r.v, Elems(q.r))

Cancel(named, rc) ==
    /\ named \subseteq Labels
    /\ rc = "NC_NOERR"
    /\ Q' = Rest(named)
    /\ abuf' = [abuf EXCEPT !.used = UsedAfter(named, Sel(named))]
    /\ slots' = Release(named)
    /\ UNCHANGED <<data, numrecs>>
    /\ hist' = H([c |-> "cancel", named |-> named, rc |-> rc])

Attach(size, rc) ==
    /\ IF size <= 0 THEN rc = "NC_ENULLBUF" /\ UNCHANGED state
       ELSE IF abuf.size >= 0 THEN rc = "NC_EPREVATTACHBUF" /\ UNCHANGED state
       ELSE rc = "NC_NOERR" /\ abuf' = [size |-> size, used |-> 0] /\ slots' = <<>> /\ UNCHANGED <<data, numrecs, Q>>
    /\ hist' = H([c |-> "attach", size |-> size, rc |-> rc])

Detach(rc) ==
    /\ IF abuf.size < 0 THEN rc = "NC_ENULLABUF" /\ UNCHANGED state
       ELSE IF \E i \in 1..Len(Q) : Q[i].kind = "bput" THEN rc = "NC_EPENDINGBPUT" /\ UNCHANGED state
       ELSE rc = "NC_NOERR" /\ abuf' = [size |-> -1, used |-> 0] /\ slots' = <<>> /\ UNCHANGED <<data, numrecs, Q>>
    /\ hist' = H([c |-> "detach", rc |-> rc])

Init == /\ data = AsSeq([v \in 1..NV |-> AsSeq([i \in 1..Cap(v - 1) |-> U])])
        /\ numrecs = 0 /\ Q = <<>> /\ abuf = [size |-> -1, used |-> 0] /\ slots = <<>> /\ hist = <<>>

(***************************************************************************)
(* Properties                                                              *)
(***************************************************************************)
TypeOK == /\ numrecs \in Nat
          /\ abuf.size >= -1 /\ abuf.used >= 0

(* C13: the usage equals the bytes of the pending buffered puts and fits the buffer *)
UsageExact == (~TailOnly => abuf.used = Used) /\ (abuf.size >= 0 => abuf.used <= abuf.size)

(* C02: pending ids are pairwise distinct *)
DistinctLabels == \A i, j \in 1..Len(Q) : i # j => Q[i].lab # Q[j].lab

(* C05 (one process): the record count never decreases and covers every completed record write *)
Monotone == [][hist' # <<>> => numrecs' >= numrecs]_vars     \* (hist' = <<>> only when a trace starts a new execution)
Covered  == \A v \in 0..(NV - 1) : IsRec(v) =>
               \A i \in 1..Cap(v) : data[v + 1][i] # U => (i - 1) \div RowLen(v) < numrecs
=============================================================================
