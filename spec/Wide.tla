-------------------------------- MODULE Wide --------------------------------
(***************************************************************************)
(* Exact arithmetic on byte counts up to 2^80 with TLC's 32-bit integers:  *)
(* a wide number is a sequence of 4 limbs, least significant first, in     *)
(* base 2^20.  Only what the layout rules need: comparison, addition,      *)
(* multiplication by a small factor, rounding up to a multiple of 4.       *)
(***************************************************************************)
EXTENDS Naturals, Sequences

Base == 1048576
NL == 4
IsWide(w) == Len(w) = NL /\ \A i \in 1..NL : w[i] \in 0..(Base - 1)

WZero == <<0, 0, 0, 0>>
WSmall(n) == <<n % Base, n \div Base, 0, 0>>          \* n < 2^31

RECURSIVE WCmpFrom(_, _, _)
WCmpFrom(a, b, i) == IF i = 0 THEN 0
                     ELSE IF a[i] < b[i] THEN 0 - 1 ELSE IF a[i] > b[i] THEN 1 ELSE WCmpFrom(a, b, i - 1)
WLe(a, b) == WCmpFrom(a, b, NL) <= 0
WLt(a, b) == WCmpFrom(a, b, NL) < 0
WEq(a, b) == a = b

(* carries: c1 out of limb 1, ... *)
WAdd(a, b) ==
    LET s1 == a[1] + b[1]              c1 == s1 \div Base
        s2 == a[2] + b[2] + c1         c2 == s2 \div Base
        s3 == a[3] + b[3] + c2         c3 == s3 \div Base
        s4 == a[4] + b[4] + c3
    IN <<s1 % Base, s2 % Base, s3 % Base, s4 % Base>>     \* (overflow beyond 2^80 does not occur in the models)

(* a * k for 0 <= k < 2048 (limb * k stays below 2^31) *)
WScale(a, k) ==
    LET p1 == a[1] * k                 c1 == p1 \div Base
        p2 == a[2] * k + c1            c2 == p2 \div Base
        p3 == a[3] * k + c2            c3 == p3 \div Base
        p4 == a[4] * k + c3
    IN <<p1 % Base, p2 % Base, p3 % Base, p4 % Base>>

WRoundUp4(a) == LET r == a[1] % 4 IN IF r = 0 THEN a ELSE WAdd(a, WSmall(4 - r))
WMod4(a) == a[1] % 4

(* powers of two used by the format rules *)
W2p31 == <<0, 2048, 0, 0>>                  \* 2^31 = 2^11 * 2^20
W2p32 == <<0, 4096, 0, 0>>
W2p63 == <<0, 0, 0, 8>>                     \* 2^63 = 2^3 * 2^60
WSub4(a) ==                                 \* a - 4 for the constants above (a[1] = 0, a > 0)
    IF a[2] > 0 THEN <<Base - 4, a[2] - 1, a[3], a[4]>>
    ELSE IF a[3] > 0 THEN <<Base - 4, Base - 1, a[3] - 1, a[4]>>
    ELSE <<Base - 4, Base - 1, Base - 1, a[4] - 1>>
WSub1(a) ==
    IF a[2] > 0 THEN <<Base - 1, a[2] - 1, a[3], a[4]>>
    ELSE IF a[3] > 0 THEN <<Base - 1, Base - 1, a[3] - 1, a[4]>>
    ELSE <<Base - 1, Base - 1, Base - 1, a[4] - 1>>
=============================================================================
