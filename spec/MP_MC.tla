------------------------------- MODULE MP_MC -------------------------------
(* bounded instance of MP: exhaustive design check and simulation-based behaviour generation *)
EXTENDS MP, Json, Randomization

CONSTANTS Depth, InvKinds
VARIABLE tk

RowTok(p) == <<tk * 10 + 2 * p + 1, tk * 10 + 2 * p + 2>>
Valid(p, rec, nrec) == [cls |-> "valid", rec |-> rec, nrec |-> nrec, tok |-> AsSeq([k \in 1..nrec |-> <<RowTok(p)[1] + 100 * (k - 1), RowTok(p)[2] + 100 * (k - 1)>>])]
Zero == [cls |-> "zero", rec |-> 0, nrec |-> 0, tok |-> <<>>]
Inv(k) == [cls |-> k, rec |-> 0, nrec |-> 0, tok |-> <<>>]

ArgsOf(p) == {Valid(p, r, n) : r \in Recs, n \in 1..2} \cup {Zero} \cup {Inv(k) : k \in InvKinds}
RowsOf(a) == IF a.cls = "valid" THEN {a.rec + k - 1 : k \in 1..a.nrec} ELSE {}
Legal(a) == a.cls # "valid" \/ a.rec + a.nrec <= MaxRec
Disjoint(A) == \A p, q \in Ranks : p # q => RowsOf(A[p]) \cap RowsOf(A[q]) = {}
AllArgs == {A \in [Ranks -> UNION {ArgsOf(p) : p \in Ranks}] : (\A p \in Ranks : A[p] \in ArgsOf(p) /\ Legal(A[p])) /\ Disjoint(A)}

GetArgsOf(p) == {[cls |-> "valid", rec |-> r, nrec |-> n, tok |-> <<>>] : r \in Recs, n \in 1..2} \cup {Zero} \cup {Inv(k) : k \in InvKinds}
AllGetArgs == {A \in [Ranks -> UNION {GetArgsOf(p) : p \in Ranks}] :
                 \A p \in Ranks : A[p].cls # "valid" \/ A[p].rec + A[p].nrec <= highest}

RcOf(A) == IF Safe /\ \E p \in Ranks : IsInv(A[p])
             THEN {[p \in Ranks |-> ErrOf(A[q].cls)] : q \in {x \in Ranks : IsInv(A[x])}}
             ELSE {[p \in Ranks |-> ErrOf(A[p].cls)]}
OK == [p \in Ranks |-> "NC_NOERR"]
Labs(p) == {Q[p][i].lab : i \in 1..Len(Q[p])}
PendRows(p) == UNION {RowsOf(Q[p][i].a) : i \in 1..Len(Q[p])}
AllPendRows == UNION {PendRows(p) : p \in Ranks}

MCNext ==
    \/ \E A \in AllArgs : \E rc \in RcOf(A) :
          /\ (\A p \in Ranks : RowsOf(A[p]) \cap AllPendRows = {})
          /\ CollPut(A, rc) /\ tk' = tk + 1
    \/ \E A \in AllGetArgs : \E rc \in RcOf(A) : CollGet(A, rc) /\ tk' = tk
    \/ \E p \in Ranks : \E a \in {x \in ArgsOf(p) : Legal(x) /\ ~IsInv(x)} :
          /\ RowsOf(a) \cap AllPendRows = {}
          /\ IndepPut(p, a, "NC_NOERR") /\ tk' = tk + 1
    \/ BeginIndep /\ ~indep /\ tk' = tk
    \/ \E nm \in {"end_indep", "sync", "sync_numrecs", "redef_enddef", "reopen"} :
          /\ (nm = "end_indep" => indep)
          /\ SyncCall(nm) /\ tk' = tk
    \/ \E p \in Ranks : \E a \in {x \in ArgsOf(p) : x.cls = "valid" /\ Legal(x)} :
          /\ Len(Q[p]) < 2 /\ RowsOf(a) \cap AllPendRows = {}
          /\ Post(p, "q" \o ToString(tk), a) /\ tk' = tk + 1
    \/ \E S \in [Ranks -> SUBSET UNION {Labs(p) : p \in Ranks}] :
          /\ \A p \in Ranks : S[p] \subseteq Labs(p)
          /\ WaitAll(S, OK) /\ tk' = tk
    \/ \E p \in Ranks : \E S \in SUBSET Labs(p) : S # {} /\ WaitIndep(p, S, "NC_NOERR") /\ tk' = tk
    \/ \E r \in Recs : FillRec(r, <<"F", "F">>, OK) /\ tk' = tk

MCInit == Init /\ tk = 1
MCSpec == MCInit /\ [][MCNext]_<<vars, tk>>
Bound == Len(hist) < Depth
View == <<state, Len(hist)>>
EmitEnd == Len(hist') # Depth \/ PrintT("EMIT " \o ToJson([h |-> hist', chg |-> TRUE]))
ReachStale == ~(indep /\ \E p, q \in Ranks : numrecs[p] # numrecs[q])
=============================================================================
