---------------------------- MODULE Trace_Limits ----------------------------
(* Trace validation for Limits (C18): def_dim / def_var / enddef return codes against the size rules, the layout the
   library reports after an accepted enddef, the non-zero byte runs found in the (sparse) file after every put (exactly
   the elements written, at the offsets OffsetOf computes), and the bytes every get returns. *)
EXTENDS Limits, Json, IOUtils

VARIABLES l
Tr == ndJsonDeserialize(IOEnv.TRACE)
Chk(name, c) == IF c THEN TRUE ELSE (PrintT(<<"FAILED", name, l>>) /\ FALSE)
AsSeq(f) == <<>> \o f
VarOf(a) == [isrec |-> a.isrec, xsz |-> a.xsz, n0 |-> a.n0, L |-> a.L]
Zeros(n) == CASE n = 1 -> "00" [] n = 2 -> "0000" [] n = 4 -> "00000000" [] OTHER -> "0000000000000000"

TReset == Tr[l].e \in {"Reset", "Header"} /\ l' = l + 1
          /\ fmt' = 1 /\ mode' = "closed" /\ vars' = <<>> /\ begins' = <<>> /\ recsize' = WZero /\ written' = {} /\ hist' = <<>>

TCreate == Tr[l].e = "create" /\ Chk("create.rc", Tr[l].rc = "NC_NOERR") /\ Create(Tr[l].a.fmtno) /\ l' = l + 1

TDefDim == /\ Tr[l].e = "def_dim"
           /\ LET a == Tr[l].a IN
                IF "wlen" \in DOMAIN a
                  THEN Chk("def_dim.rc", Tr[l].rc \in DimRc(fmt, a.wlen, a.neg)) /\ DefDim(a.wlen, a.neg, Tr[l].rc)
                  ELSE Chk("def_dim.setup", Tr[l].rc = "NC_NOERR") /\ UNCHANGED vv
           /\ l' = l + 1

TDefVar == /\ Tr[l].e = "def_var"
           /\ Chk("def_var.rc", Tr[l].rc \in {"NC_NOERR", "NC_EVARSIZE"})
           /\ DefVar(VarOf(Tr[l].a), Tr[l].rc)
           /\ l' = l + 1

TEnddef == /\ Tr[l].e = "enddef"
           /\ LET ev == Tr[l] IN
                /\ Chk("enddef.rc", ev.rc \in EnddefRc(fmt, vars))
                /\ IF ev.rc = "NC_NOERR"
                     THEN /\ Chk("layout.rc", ev.obs.wlayout.rc = "NC_NOERR")
                          /\ Chk("layout", LayoutOK(fmt, vars, ev.obs.wlayout.offs, ev.obs.wlayout.recsize))
                          /\ Enddef(ev.rc, ev.obs.wlayout.offs, ev.obs.wlayout.recsize)
                     ELSE Enddef(ev.rc, <<>>, WZero)
           /\ l' = l + 1

RunBytes(o) == UNION {ByteSet(o.runs[k].off, o.runs[k].hexb) : k \in 1..Len(o.runs)}

TPut == /\ Tr[l].e = "put"
        /\ LET ev == Tr[l]  a == ev.a IN
             /\ Chk("put.rc", ev.rc = "NC_NOERR")
             /\ Put(a.v + 1, a.rec, a.i, a.wj, a.rows)
             /\ Chk("file.decodable", "error" \notin DOMAIN ev.obs.nzruns)
             /\ Chk("file.runs", RunBytes(ev.obs.nzruns) = NonZeroBytes')
        /\ l' = l + 1

TGet == /\ Tr[l].e = "get"
        /\ LET ev == Tr[l]  a == ev.a
               off == OffsetOf(vars, begins, recsize, a.v + 1, a.rec, a.i, a.wj) IN
             /\ Chk("get.rc", ev.rc = "NC_NOERR")
             /\ Chk("get.value", ev.out.hexb = AsSeq(BytesAt(off, Len(ev.out.hexb))))
        /\ UNCHANGED vv
        /\ l' = l + 1

TOther == /\ Tr[l].e \in {"close", "abort", "open", "sync"} /\ Chk("other.rc", Tr[l].rc = "NC_NOERR")
          /\ UNCHANGED vv /\ l' = l + 1

TNext == l <= Len(Tr) /\ (TReset \/ TCreate \/ TDefDim \/ TDefVar \/ TEnddef \/ TPut \/ TGet \/ TOther)
TraceSpec == Init /\ l = 1 /\ [][TNext]_<<vv, l>>
TraceAccepted ==
    LET n == TLCGet("stats").diameter - 1 IN
    /\ PrintT(<<"TRACE_MATCHED", n>>)
    /\ n = Len(Tr)
=============================================================================
