------------------------------- MODULE Tools -------------------------------
(***************************************************************************)
(* C20.  The offline utilities against the format and the library.         *)
(*                                                                         *)
(* A file is known by its logical content (format version, record count,   *)
(* dimensions, attributes, variables with their values), by whether its    *)
(* header obeys the format grammar, and by the offsets an independent      *)
(* decoder finds in it.  What the tools must say is a function of that:    *)
(*   validator : accepts iff the header obeys the grammar;                 *)
(*   diff tools: "same" iff the two files have the same format version and *)
(*               the same logical content -- whatever their layout, in     *)
(*               either argument order, on any number of processes;        *)
(*   offsets   : the begin of every variable as found in the file;         *)
(*   dump+gen  : the file regenerated from the dump has the same content.  *)
(***************************************************************************)
EXTENDS Naturals, Sequences, TLC

VARIABLES files,     \* files[id]: [content, valid, begins]
          hist
tvars_ == <<files, hist>>

Empty == [k \in {} |-> 0]
VarLogical(v) == [name |-> v.name, xtype |-> v.xtype, dimids |-> v.dimids, atts |-> v.atts, data |-> v.data]
Logical(c) == [fmt |-> c.fmt, numrecs |-> c.numrecs, dims |-> c.dims, gatts |-> c.gatts,
               vars |-> [i \in 1..Len(c.vars) |-> VarLogical(c.vars[i])]]
(* compared through their printed form: values TLC cannot hold as integers arrive as strings ("i:-2147483647"), and TLC refuses
   to compare a string with a number instead of calling them different *)
LogicalEq(a, b) == ToString(Logical(a)) = ToString(Logical(b))

Init == files = Empty /\ hist = <<>>

Load(id, content, valid, begins) ==
    /\ files' = [x \in DOMAIN files \cup {id} |-> IF x = id THEN [content |-> content, valid |-> valid, begins |-> begins] ELSE files[x]]
    /\ hist' = <<[c |-> "load", id |-> id]>>

(* exit status 0 = accepted *)
Validate(id, accepted) ==
    /\ id \in DOMAIN files /\ accepted = files[id].valid
    /\ UNCHANGED files /\ hist' = <<[c |-> "validate", id |-> id]>>

Diff(a, b, same) ==
    /\ a \in DOMAIN files /\ b \in DOMAIN files /\ files[a].valid /\ files[b].valid
    /\ same = LogicalEq(files[a].content, files[b].content)
    /\ UNCHANGED files /\ hist' = <<[c |-> "diff", a |-> a, b |-> b]>>

Offsets(id, reported) ==
    /\ id \in DOMAIN files /\ reported = files[id].begins
    /\ UNCHANGED files /\ hist' = <<[c |-> "offsets", id |-> id]>>

Regen(id, content) ==
    /\ id \in DOMAIN files /\ LogicalEq(files[id].content, content)
    /\ UNCHANGED files /\ hist' = <<[c |-> "regen", id |-> id]>>

(* the verdict of the diff tools is symmetric and an equivalence on files: consequences of the definition, checked on a
   bounded instance (Tools_MC) *)
=============================================================================
