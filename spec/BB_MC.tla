------------------------------- MODULE BB_MC -------------------------------
(* Bounded instance of BB: design check and behaviour generator (C12) *)
EXTENDS BB, Json

CONSTANT Depth
VARIABLE tk
mcvars == <<vars, tk>>

(* row sets one request can address: the fixed variable, or records start, start+stride, ... (count 1..2, stride 1..2) *)
RowSets == {{0}} \cup {{s + k * st : k \in 0..(c - 1)} : s \in 1..MaxRec, c \in 1..2, st \in 1..2}
Reqs == {S \in RowSets : \A r \in S : r <= MaxRec}
Tok(r, t) == <<t * 10 + r, t * 10 + r + 5>>
WOf(S, t) == {[row |-> r, tok |-> Tok(r, t)] : r \in S}

Next ==
    \/ \E f \in [Ranks -> Reqs \cup {{}}] :
          /\ \E p \in Ranks : f[p] # {}
          /\ CollPut([p \in Ranks |-> WOf(f[p], tk + p)]) /\ tk' = tk + N
    \/ \E p \in Ranks, S \in Reqs : IndepPut(p, WOf(S, tk)) /\ tk' = tk + 1
    \/ \E p \in Ranks, S \in Reqs : Post(p, WOf(S, tk)) /\ tk' = tk + 1
    \/ \E nm \in {"wait_all", "flush", "sync", "redef_enddef", "reopen"} : SyncAll(nm) /\ tk' = tk
    \/ EndIndep /\ tk' = tk
    \/ \E p \in Ranks, nm \in {"wait", "flush"} : SyncOne(p, nm) /\ tk' = tk
    \/ BeginIndep /\ tk' = tk
    \/ Get("get") /\ tk' = tk

MCInit == Init /\ tk = 1
MCSpec == MCInit /\ [][Next]_mcvars
Bound == tk <= 6 /\ Len(hist) <= 1
View == <<committed, pend, posted, gcount, mine, indep, closed>>
EmitEnd == Len(hist') # Depth \/ PrintT("EMIT " \o ToJson([h |-> hist']))
=============================================================================
