------------------------------- MODULE Files -------------------------------
(***************************************************************************)
(* C17: file-handle table and lifecycle of several files.                  *)
(*                                                                         *)
(* Labels name the application's handles.  An id is valid from the create  *)
(* or open that returned it until the close or abort that releases it; new *)
(* ids are the lowest free slot; at most MaxFiles are open; a call with an *)
(* id that is not open returns NC_EBADID and changes nothing; calls on one *)
(* file never change another; close with pending requests cancels them and *)
(* says NC_EPENDING; when no file is open the library owns nothing.        *)
(***************************************************************************)
EXTENDS Naturals, Integers, Sequences, FiniteSets, TLC

CONSTANTS Labels, MaxFiles, StaleOps,
          KeepHist    \* TRUE: hist is the whole history (generation); FALSE: only the last call (long traces)

VARIABLES
    files,    \* label -> Closed | [id, nd, hasvar, pend, mode]
    lastid,   \* label -> last id issued to this label (-1: never)
    disk,     \* label -> -1 (no such file) | number of dimensions stored in the file of that label
    diskv,    \* label -> the file of that label holds the variable
    hist

vars  == <<files, lastid, disk, diskv, hist>>
state == <<files, lastid, disk, diskv>>

H(r) == IF KeepHist THEN Append(hist, r) ELSE <<r>>

Closed  == [id |-> -1, nd |-> 0, hasvar |-> FALSE, pend |-> 0, mode |-> "closed"]
Open    == {f \in Labels : files[f].mode # "closed"}
UsedIds == {files[f].id : f \in Open}
(* the lowest free slot is 0 or the successor of a used one *)
LowestFree == LET u == UsedIds
                  cand == ({0} \cup {i + 1 : i \in u}) \ u
              IN  CHOOSE i \in cand : \A j \in cand : i <= j

(* f's remembered id is not valid now: it was never issued, or released and not reissued *)
IsStale(f) == files[f].mode = "closed" /\ lastid[f] \notin UsedIds

Rec(id, nd, hv, md) == [id |-> id, nd |-> nd, hasvar |-> hv, pend |-> 0, mode |-> md]

Create(f, rc) ==
    /\ files[f].mode = "closed"
    /\ IF Cardinality(UsedIds) = MaxFiles
         THEN rc = "NC_ENFILE" /\ UNCHANGED state
         ELSE /\ rc = "NC_NOERR"
              /\ LET id == LowestFree IN
                   /\ files' = [files EXCEPT ![f] = Rec(id, 0, FALSE, "def")]
                   /\ lastid' = [lastid EXCEPT ![f] = id]
              /\ disk' = [disk EXCEPT ![f] = 0]          \* the file now exists (clobbered)
              /\ diskv' = [diskv EXCEPT ![f] = FALSE]
    /\ hist' = H([c |-> "create", f |-> f, rc |-> rc])

OpenFile(f, rc) ==       \* open (read-write) the file this label created earlier
    /\ files[f].mode = "closed" /\ disk[f] >= 0
    /\ IF Cardinality(UsedIds) = MaxFiles
         THEN rc = "NC_ENFILE" /\ UNCHANGED state
         ELSE /\ rc = "NC_NOERR"
              /\ LET id == LowestFree IN
                   /\ files' = [files EXCEPT ![f] = Rec(id, disk[f], diskv[f], "data")]
                   /\ lastid' = [lastid EXCEPT ![f] = id]
              /\ UNCHANGED <<disk, diskv>>
    /\ hist' = H([c |-> "open", f |-> f, rc |-> rc])

(* the release calls free the slot whatever they report *)
Close(f, rc) ==
    /\ files[f].mode # "closed"
    /\ rc = IF files[f].pend > 0 THEN "NC_EPENDING" ELSE "NC_NOERR"
    /\ files' = [files EXCEPT ![f] = Closed]
    /\ disk' = [disk EXCEPT ![f] = files[f].nd]         \* close in define mode performs enddef
    /\ diskv' = [diskv EXCEPT ![f] = files[f].hasvar]
    /\ UNCHANGED lastid
    /\ hist' = H([c |-> "close", f |-> f, rc |-> rc])

Abort(f, rc) ==
    /\ files[f].mode # "closed"
    \* the documentation does not say whether abort reports cancelled requests: either answer
    /\ rc \in (IF files[f].pend > 0 THEN {"NC_EPENDING", "NC_NOERR"} ELSE {"NC_NOERR"})
    /\ files' = [files EXCEPT ![f] = Closed]
    \* aborting a file still in its creating define mode removes it; in data mode abort is like close
    /\ disk' = [disk EXCEPT ![f] = IF files[f].mode = "def" THEN -1 ELSE @]
    /\ UNCHANGED <<lastid, diskv>>
    /\ hist' = H([c |-> "abort", f |-> f, rc |-> rc])

DefDim(f, rc) ==
    /\ files[f].mode # "closed" /\ files[f].nd < 2
    /\ IF files[f].mode = "def"
         THEN rc = "NC_NOERR" /\ files' = [files EXCEPT ![f].nd = @ + 1]
         ELSE rc = "NC_ENOTINDEFINE" /\ UNCHANGED files
    /\ UNCHANGED <<lastid, disk, diskv>>
    /\ hist' = H([c |-> "def_dim", f |-> f, rc |-> rc])

DefVar(f, rc) ==
    /\ files[f].mode # "closed" /\ files[f].nd > 0 /\ ~files[f].hasvar
    /\ IF files[f].mode = "def"
         THEN rc = "NC_NOERR" /\ files' = [files EXCEPT ![f].hasvar = TRUE]
         ELSE rc = "NC_ENOTINDEFINE" /\ UNCHANGED files
    /\ UNCHANGED <<lastid, disk, diskv>>
    /\ hist' = H([c |-> "def_var", f |-> f, rc |-> rc])

Enddef(f, rc) ==
    /\ files[f].mode # "closed"
    /\ IF files[f].mode = "def"
         THEN /\ rc = "NC_NOERR" /\ files' = [files EXCEPT ![f].mode = "data"]
              /\ disk' = [disk EXCEPT ![f] = files[f].nd] /\ diskv' = [diskv EXCEPT ![f] = files[f].hasvar]
         ELSE rc = "NC_ENOTINDEFINE" /\ UNCHANGED <<files, disk, diskv>>
    /\ UNCHANGED lastid
    /\ hist' = H([c |-> "enddef", f |-> f, rc |-> rc])

IGet(f, rc) ==          \* post a nonblocking read (allowed in every mode)
    /\ files[f].mode # "closed" /\ files[f].hasvar /\ files[f].pend < 1
    /\ rc = "NC_NOERR"
    /\ files' = [files EXCEPT ![f].pend = @ + 1]
    /\ UNCHANGED <<lastid, disk, diskv>>
    /\ hist' = H([c |-> "iget", f |-> f, rc |-> rc])

(* any API family on an id that is not open: bad id, nothing changes, no crash *)
Stale(f, op, rc) ==
    /\ IsStale(f)
    /\ op \in StaleOps
    /\ rc = "NC_EBADID"
    /\ UNCHANGED state
    /\ hist' = H([c |-> "stale", f |-> f, op |-> op, rc |-> rc])

Codes == {"NC_NOERR", "NC_ENFILE", "NC_EPENDING", "NC_ENOTINDEFINE", "NC_EBADID"}

Init == /\ files = [f \in Labels |-> Closed] /\ lastid = [f \in Labels |-> -1]
        /\ disk = [f \in Labels |-> -1] /\ diskv = [f \in Labels |-> FALSE] /\ hist = <<>>

Next == \E f \in Labels, rc \in Codes :
           \/ Create(f, rc) \/ OpenFile(f, rc) \/ Close(f, rc) \/ Abort(f, rc)
           \/ DefDim(f, rc) \/ DefVar(f, rc) \/ Enddef(f, rc) \/ IGet(f, rc)
           \/ \E op \in StaleOps : Stale(f, op, rc)

Spec == Init /\ [][Next]_vars

(***************************************************************************)
(* Properties                                                              *)
(***************************************************************************)
TypeOK == \A f \in Labels : files[f] = Closed \/ (files[f].mode \in {"def", "data"} /\ files[f].id \in 0..(MaxFiles - 1))

(* two open handles never share an id *)
UniqueIds == \A f, g \in Open : f # g => files[f].id # files[g].id

AtMostMax == Cardinality(Open) <= MaxFiles

(* an operation addressed to one label leaves every other label's file untouched *)
Isolation ==
    [][ hist' # <<>> =>
        LET last == hist'[Len(hist')] IN
          \A g \in Labels : g # last.f => (files'[g] = files[g] /\ disk'[g] = disk[g] /\ diskv'[g] = diskv[g]) ]_vars

(* an id stays valid (and the same) from create/open to close/abort *)
StableIds ==
    [][ \A g \in Labels : (files[g].mode # "closed" /\ files'[g].mode # "closed") => files'[g].id = files[g].id ]_vars
=============================================================================
