------------------------------- MODULE Hints -------------------------------
(***************************************************************************)
(* C10, last clause: "the effective hint values the library reports back   *)
(* are the ones in force".                                                  *)
(*                                                                         *)
(* State of ONE file: the hints requested through the MPI_Info object of   *)
(* create / open, the arguments of ncmpi__enddef, the values in force      *)
(* (eff), and the layout the library last reported (header extent, start   *)
(* of the record section).  One action per API call:                       *)
(*   Create / Open (req)   the non-alignment hints take their normalised   *)
(*                         values (documented defaults when absent or      *)
(*                         unusable) and stay fixed until close            *)
(*   DefVar(k)             a fixed-size ("f") or record ("r") variable     *)
(*   Enddef(a)             the alignments in force are chosen by the       *)
(*                         documented precedence (hint over argument,      *)
(*                         variable alignment standing in for the header   *)
(*                         alignment, record alignment for files without   *)
(*                         fixed-size variables, 512 for a new file, else  *)
(*                         4; all rounded up to a multiple of 4) and a new *)
(*                         layout is computed                              *)
(*   InqLayout(e, b)       the layout reported after an enddef must be the *)
(*                         one the alignments in force dictate (InForce);  *)
(*                         outside enddef the layout never changes         *)
(*   InqInfo               what inq_file_info reports must equal eff       *)
(*                         (alignments: from the first enddef of the       *)
(*                         session onward; before that nothing is in force *)
(*                         and the report is not constrained)              *)
(* A section that is kept where it was by a redefinition (the library      *)
(* never shrinks the header extent or moves the record section down)       *)
(* is explicitly allowed: InForce compares with the previous layout.       *)
(***************************************************************************)
EXTENDS Naturals, Sequences, TLC

CONSTANTS Aligns,     \* requested alignment hints (0 = hint absent)
          EArgs,      \* alignment arguments of ncmpi__enddef (0 = plain enddef / unspecified)
          Ibufs,      \* nc_ibuf_size requests (0 = absent)
          Swaps,      \* nc_in_place_swap requests ("none" = absent)
          Hashes,     \* nc_hash_size_* requests (0 = absent)
          Aggrs,      \* nc_num_aggrs_per_node requests (0 = absent)
          Exts,       \* layout offsets the bounded instance chooses from (trace validation binds the observed ones)
          KeepHist

VARIABLES phase,   \* "closed" | "define" | "data"
          isnew,   \* the file was created in this session and has not left define mode yet
          req,     \* hints requested at create / open
          eff,     \* values in force: [h, v, r: alignments or 0 = none in force yet; ibuf, swap, hdim, hvar, aggr]
          vars,    \* kinds of the variables defined, in order
          ext,     \* header extent last reported (0 = none yet)
          brec,    \* start of the record section last reported (0 = none yet)
          exists,  \* the file exists on disk
          fresh,   \* an enddef computed a new layout that has not been inspected yet
          hist

hvars == <<phase, isnew, req, eff, vars, ext, brec, exists, fresh, hist>>

H(r) == IF KeepHist THEN Append(hist, r) ELSE <<r>>

Up4(x) == ((x + 3) \div 4) * 4
NFix == Len(SelectSeq(vars, LAMBDA k : k = "f"))
NRec == Len(SelectSeq(vars, LAMBDA k : k = "r"))

DefaultIbuf == 16777216
DefaultHash == 256
DefaultAlign == 512

Reqs == [h : Aligns, v : Aligns, r : Aligns, ibuf : Ibufs, swap : Swaps, hash : Hashes, aggr : Aggrs]

(* values a request puts in force at create / open (documented normalisation) *)
NormSwap(s) == IF s \in {"enable", "ENABLE", "Enable"} THEN "enable"
               ELSE IF s \in {"disable", "Disable"} THEN "disable" ELSE "auto"
AtOpen(q) == [h |-> 0, v |-> 0, r |-> 0,
              ibuf |-> IF q.ibuf > 0 THEN q.ibuf ELSE DefaultIbuf,
              swap |-> NormSwap(q.swap),
              hash |-> IF q.hash > 0 THEN q.hash ELSE DefaultHash,
              aggr |-> q.aggr]

(* alignments an enddef with arguments a puts in force *)
(* the header alignment: a header or variable alignment the user asked for (hint first, then argument) is binding; when none
   was asked for, the library picks one on its own - the record alignment when there is no fixed-size variable, 512 for a new
   file, else 4 - and which of these it picks is not promised anywhere (it depends on a variable count taken before the
   definitions of the current define mode are counted), so all of them are admissible; the report pins the choice down *)
AlignH(q, a, new, nfix) ==
    IF q.h > 0 THEN {Up4(q.h)}
    ELSE IF q.v > 0 THEN {Up4(q.v)}
    ELSE IF a.v > 0 THEN {Up4(a.v)}
    ELSE LET rr == IF q.r > 0 THEN q.r ELSE a.r
         IN  (IF rr > 0 THEN {Up4(rr)} ELSE {}) \cup {IF new THEN DefaultAlign ELSE 4}
AlignV(q, a) == Up4(IF q.v > 0 THEN q.v ELSE IF a.v > 0 THEN a.v ELSE 4)
AlignR(q, a) == Up4(IF q.r > 0 THEN q.r ELSE IF a.r > 0 THEN a.r ELSE 4)

Init == /\ phase = "closed" /\ isnew = FALSE /\ req = [h |-> 0, v |-> 0, r |-> 0, ibuf |-> 0, swap |-> "none", hash |-> 0, aggr |-> 0]
        /\ eff = AtOpen(req) /\ vars = <<>> /\ exists = FALSE /\ ext = 0 /\ brec = 0 /\ fresh = FALSE /\ hist = <<>>

Create(q) ==
    /\ phase = "closed"                          \* (an existing file is clobbered)
    /\ phase' = "define" /\ isnew' = TRUE /\ req' = q /\ eff' = AtOpen(q)
    /\ vars' = <<>> /\ ext' = 0 /\ brec' = 0 /\ fresh' = FALSE /\ exists' = TRUE
    /\ hist' = H([c |-> "create", q |-> q])

Open(q) ==
    /\ phase = "closed" /\ exists
    /\ phase' = "data" /\ isnew' = FALSE /\ req' = q /\ eff' = AtOpen(q)
    /\ hist' = H([c |-> "open", q |-> q])
    /\ UNCHANGED <<vars, ext, brec, fresh, exists>>      \* the layout on disk stays what it was

DefVar(k) ==
    /\ phase = "define" /\ Len(vars) < 3
    /\ vars' = Append(vars, k)
    /\ hist' = H([c |-> "def_var", k |-> k])
    /\ UNCHANGED <<phase, isnew, req, eff, ext, brec, fresh, exists>>

Enddef(a) ==
    /\ phase = "define" /\ ~fresh
    /\ phase' = "data" /\ isnew' = FALSE
    /\ \E h \in AlignH(req, a, isnew, NFix) :
          eff' = [eff EXCEPT !.h = h, !.v = AlignV(req, a), !.r = AlignR(req, a)]
    /\ fresh' = TRUE
    /\ hist' = H([c |-> "enddef", a |-> a])
    /\ UNCHANGED <<req, vars, ext, brec, exists>>

Redef ==
    /\ phase = "data" /\ ~fresh
    /\ phase' = "define"
    /\ hist' = H([c |-> "redef"])
    /\ UNCHANGED <<isnew, req, eff, vars, ext, brec, fresh, exists>>

Close ==
    /\ phase = "data" /\ ~fresh
    /\ phase' = "closed"
    /\ hist' = H([c |-> "close"])
    /\ UNCHANGED <<isnew, req, eff, vars, ext, brec, fresh, exists>>

(* the layout (e = header extent, b = start of the record section, 0 when the file has no record variable) the
   alignments in force dictate, given the layout before the enddef *)
InForce(e, b) ==
    /\ vars # <<>> => e > 0
    /\ NFix > 0 => (e = ext \/ e % eff.h = 0)
    /\ (NFix = 0 /\ NRec > 0) => e = b
    /\ NRec > 0 => (b > 0 /\ (b = brec \/ b % eff.r = 0))
    /\ (ext > 0 /\ NFix > 0) => e >= ext                \* sections never move down
    /\ brec > 0 => b >= brec

(* a file without variables has no data section: its "extent" is not a layout fact (the library reports the aligned value
   in the creating session and the header size after reopening) *)
LayoutOK(e, b) == vars = <<>> \/ IF fresh THEN InForce(e, b) ELSE (e = ext /\ b = brec)

InqLayout(e, b) ==
    /\ phase = "data"
    /\ LayoutOK(e, b)
    /\ ext' = (IF vars = <<>> THEN 0 ELSE e) /\ brec' = (IF vars = <<>> THEN 0 ELSE b) /\ fresh' = FALSE
    /\ hist' = H([c |-> "inq_layout"])
    /\ UNCHANGED <<phase, isnew, req, eff, vars, exists>>

(* what inq_file_info must report: the values in force *)
Reported == eff
InqInfo ==
    /\ phase # "closed"
    /\ hist' = H([c |-> "inq_info"])
    /\ UNCHANGED <<phase, isnew, req, eff, vars, ext, brec, fresh, exists>>

Next == \/ \E q \in Reqs : Create(q) \/ Open(q)
        \/ \E k \in {"f", "r"} : DefVar(k)
        \/ \E a \in [v : EArgs, r : EArgs] : Enddef(a)
        \/ Redef \/ Close \/ InqInfo
        \/ \E e \in Exts, b \in Exts \cup {0} : InqLayout(e, b)

Spec == Init /\ [][Next]_hvars

----------------------------------------------------------------------------
TypeOK == /\ phase \in {"closed", "define", "data"}
          /\ req \in Reqs \/ phase = "closed"
          /\ eff.swap \in {"enable", "disable", "auto"}

(* alignments in force are positive multiples of 4 once an enddef has run; none is in force before *)
AlignShape == /\ eff.h % 4 = 0 /\ eff.v % 4 = 0 /\ eff.r % 4 = 0
              /\ (eff.h = 0) = (eff.r = 0) /\ (eff.h = 0) = (eff.v = 0)

(* a hint the user gave is honoured: it wins over the enddef argument and over every default *)
HintHonoured == (eff.h > 0 /\ phase # "closed") =>
                   /\ req.h > 0 => eff.h = Up4(req.h)
                   /\ req.r > 0 => eff.r = Up4(req.r)
                   /\ req.v > 0 => eff.v = Up4(req.v)
                   /\ req.ibuf > 0 => eff.ibuf = req.ibuf

(* non-alignment hints are fixed from create / open to close *)
Sticky == [][phase # "closed" /\ phase' # "closed" =>
               /\ eff'.ibuf = eff.ibuf /\ eff'.swap = eff.swap /\ eff'.hash = eff.hash /\ eff'.aggr = eff.aggr]_hvars

(* the layout changes only through an enddef *)
LayoutStable == [][(~fresh /\ ~fresh') => ((ext' = ext /\ brec' = brec) \/ (ext' = 0 /\ brec' = 0))]_hvars   \* (create clobbers)
=============================================================================
