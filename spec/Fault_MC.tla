----------------------------- MODULE Fault_MC -----------------------------
EXTENDS Fault
MCNext == \/ \E r \in Ranks, k \in 1..3 : armed.rank = -1 /\ Arm(r, k)
          \/ \E io \in [Ranks -> 0..2], err \in [Ranks -> BOOLEAN] : Step(io, err)
MCSpec == Init /\ [][MCNext]_vars
Bound == Len(hist) < 5
View == <<armed, done, fired, reported, Len(hist)>>
ReachFired == ~(fired /\ reported)
=============================================================================
