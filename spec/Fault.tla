------------------------------- MODULE Fault -------------------------------
(***************************************************************************)
(* C11: an MPI-IO failure injected into one data-transfer call of one rank *)
(* is never silently dropped.                                              *)
(*                                                                         *)
(* The environment arms at most one fault (rank, position k, error class). *)
(* Each API step of each rank performs some number of MPI-IO transfers;    *)
(* the k-th transfer of the armed rank fails.  The step in which it fails  *)
(* must report an error on that rank -- for a nonblocking request, the     *)
(* wait that carries out the transfer is that step -- and every rank must  *)
(* return from every step.                                                 *)
(***************************************************************************)
EXTENDS Naturals, Integers, Sequences, FiniteSets, TLC

CONSTANTS N, KeepHist
Ranks == 0..(N - 1)

VARIABLES
    armed,     \* [rank, k] or [rank |-> -1, k |-> 0]
    done,      \* done[p]: transfers rank p has issued since arming
    fired,     \* the fault has fired
    reported,  \* the step in which it fired returned an error on the faulted rank
    hist

vars == <<armed, done, fired, reported, hist>>
H(r) == IF KeepHist THEN Append(hist, r) ELSE <<r>>

Arm(r, k) ==
    /\ armed' = [rank |-> r, k |-> k] /\ done' = [p \in Ranks |-> 0] /\ fired' = FALSE /\ reported' = FALSE
    /\ hist' = H([c |-> "arm", rank |-> r, k |-> k])

(* one API step: io[p] transfers issued by rank p, err[p] = the rank's call reported an error *)
Step(io, err) ==
    /\ LET r == armed.rank
           hits == r \in Ranks /\ ~fired /\ done[r] < armed.k /\ done[r] + io[r] >= armed.k
       IN /\ fired' = (fired \/ hits)
          /\ reported' = IF hits THEN err[r] ELSE reported
          \* the property: a failure never turns into a success return
          /\ hits => err[r]
    /\ done' = [p \in Ranks |-> done[p] + io[p]]
    /\ UNCHANGED armed
    /\ hist' = H([c |-> "step", io |-> io, err |-> err])

Init == /\ armed = [rank |-> -1, k |-> 0] /\ done = [p \in Ranks |-> 0] /\ fired = FALSE /\ reported = FALSE /\ hist = <<>>

NoSilentDrop == fired => reported
=============================================================================
