------------------------------ MODULE Trace_BB ------------------------------
(* Trace validation for BB (C12): per step and rank the return code, the data read (own writes always; other processes'
   writes from the next synchronisation point on), the record count every rank reports, the content and record count
   decoded from the destination file at every synchronisation point and after close, and the log directory after close. *)
EXTENDS BB, Json, IOUtils

VARIABLES l
Tr == ndJsonDeserialize(IOEnv.TRACE)
tvars == <<vars, l>>
W == 2
Chk(name, c) == IF c THEN TRUE ELSE (PrintT(<<"FAILED", name, l>>) /\ FALSE)
Same(a, b) == ToString(a) = ToString(b)

ByRank(ev, p) == CHOOSE i \in 1..Len(ev.rk) : ev.rk[i].r = p
AllRanks(ev) == Len(ev.rk) = N /\ \A p \in Ranks : \E i \in 1..Len(ev.rk) : ev.rk[i].r = p
AllOK(ev) == \A i \in 1..Len(ev.rk) : ev.rk[i].rc = "NC_NOERR"
IsSetup(ev) == "setup" \in DOMAIN ev.rk[1].a
Mode(ev) == IF "mode" \in DOMAIN ev.rk[1].a THEN ev.rk[1].a.mode ELSE "none"
KindOf(ev) == IF "kind" \in DOMAIN ev.rk[1].a THEN ev.rk[1].a.kind ELSE "blocking"

(* the rows a step addresses are given in the step (rows: list of row numbers, vals: W values per row) *)
WOfArg(a) == IF "rows" \notin DOMAIN a THEN {}
             ELSE {[row |-> a.rows[k], tok |-> <<a.vals[W * (k - 1) + 1], a.vals[W * (k - 1) + 2]>>] : k \in 1..Len(a.rows)}

TokMatch(t, buf, k) == t = <<>> \/ (Same(t[1], buf[W * (k - 1) + 1]) /\ Same(t[2], buf[W * (k - 1) + 2]))

ObsOK(ev, sync) ==
    /\ Chk("numrecs", \A i \in 1..Len(ev.rk) :
            ("numrecs" \in DOMAIN ev.rk[i].obs) => CountOKN(ev.rk[i].r, ev.rk[i].obs.numrecs))
    \* at a collective synchronisation point the destination file holds everything written so far
    /\ sync => Chk("disk", \A i \in 1..Len(ev.rk) :
            ("disk" \in DOMAIN ev.rk[i].obs /\ ev.rk[i].r = 0) =>
               LET d == ev.rk[i].obs.disk IN
               /\ "error" \notin DOMAIN d
               /\ d.numrecs >= CommittedRecsN /\ d.numrecs <= Max(CommittedRecsN, TopOf(PostRowsN))
               \* (rows of nonblocking puts not yet waited for may hold either content)
               /\ 0 \notin PostRowsN => TokMatch(committed'[1], d.vars[1].data, 1)
               /\ \A r \in 1..MaxRec : (W * r <= Len(d.vars[2].data) /\ r \notin PostRowsN) => TokMatch(committed'[r + 1], d.vars[2].data, r)
               /\ \A r \in 1..MaxRec : committed'[r + 1] # <<>> => W * r <= Len(d.vars[2].data))

TReset ==
    /\ Tr[l].e \in {"Reset", "Header"}
    /\ committed' = AsSeq([i \in 1..(MaxRec + 1) |-> <<>>]) /\ pend' = TLCEval([p \in Ranks |-> {}]) /\ posted' = TLCEval([p \in Ranks |-> {}])
    /\ gcount' = 0 /\ mine' = TLCEval([p \in Ranks |-> 0])
    /\ indep' = FALSE /\ closed' = FALSE /\ hist' = <<>>
    /\ l' = l + 1

TSetup ==
    /\ Tr[l].e \notin {"Reset", "Header"} /\ IsSetup(Tr[l])
    /\ Chk("setup.rc", AllOK(Tr[l]))
    /\ l' = l + 1 /\ UNCHANGED vars

TPut ==
    /\ Tr[l].e = "put" /\ ~IsSetup(Tr[l])
    /\ LET ev == Tr[l] IN
         /\ Chk("put.rc", AllOK(ev))
         /\ IF KindOf(ev) # "blocking"
              THEN Len(ev.rk) = 1 /\ Post(ev.rk[1].r, WOfArg(ev.rk[1].a))
              ELSE IF Mode(ev) = "coll"
                THEN Chk("allranks", AllRanks(ev)) /\ CollPut([p \in Ranks |-> WOfArg(ev.rk[ByRank(ev, p)].a)])
                ELSE Len(ev.rk) = 1 /\ IndepPut(ev.rk[1].r, WOfArg(ev.rk[1].a))
         /\ ObsOK(ev, FALSE)
    /\ l' = l + 1

TGet ==
    /\ Tr[l].e = "get" /\ ~IsSetup(Tr[l])
    /\ LET ev == Tr[l] IN
         /\ Chk("get.rc", AllOK(ev))
         /\ Get("get")
         /\ Chk("get.buf", \A i \in 1..Len(ev.rk) :
               LET a == ev.rk[i].a  p == ev.rk[i].r IN
               ("rows" \in DOMAIN a) =>
                  \A k \in 1..Len(a.rows) : \E t \in Readable(p, a.rows[k]) : TokMatch(t, ev.rk[i].out.buf, k))
         /\ ObsOK(ev, FALSE)
    /\ l' = l + 1

SyncName(ev) == CASE ev.e = "wait" -> "wait_all" [] ev.e = "flush" -> "flush" [] ev.e = "sync" -> "sync"
                  [] ev.e = "redef" -> "redef_enddef" [] ev.e = "close" -> "close"
TSync ==
    /\ Tr[l].e \in {"wait", "flush", "sync", "redef", "close"} /\ ~IsSetup(Tr[l])
    /\ LET ev == Tr[l] IN
         /\ Chk("sync.rc", AllOK(ev))
         /\ IF indep /\ ev.e \in {"wait", "flush"}
              THEN Len(ev.rk) = 1 /\ SyncOne(ev.rk[1].r, IF ev.e = "wait" THEN "wait" ELSE "flush") /\ ObsOK(ev, FALSE)
              ELSE Chk("allranks", AllRanks(ev)) /\ SyncAll(SyncName(ev)) /\ ObsOK(ev, TRUE)
    /\ l' = l + 1

TOther ==
    /\ Tr[l].e \in {"begin_indep", "end_indep", "enddef", "open", "noop", "mkdir"} /\ ~IsSetup(Tr[l])
    /\ LET ev == Tr[l] IN
         /\ Chk("other.rc", AllOK(ev))
         /\ CASE ev.e = "begin_indep" -> BeginIndep
              [] ev.e = "end_indep" -> EndIndep
              [] ev.e = "open" -> closed /\ closed' = FALSE /\ UNCHANGED <<committed, pend, posted, gcount, mine, indep, hist>>
              [] OTHER -> UNCHANGED vars
         \* the log directory after close: empty unless retention was requested
         /\ \A i \in 1..Len(ev.rk) :
              ("logfiles" \in DOMAIN ev.rk[i].obs /\ ev.rk[i].r = 0) =>
                 Chk("logfiles", IF ev.rk[i].a.keep THEN TRUE ELSE ev.rk[i].obs.logfiles = <<>>)
         /\ ObsOK(ev, ev.e = "open")
    /\ l' = l + 1

TNext == l <= Len(Tr) /\ (TReset \/ TSetup \/ TPut \/ TGet \/ TSync \/ TOther)
TraceSpec == Init /\ l = 1 /\ [][TNext]_tvars
TraceAccepted ==
    LET n == TLCGet("stats").diameter - 1 IN
    /\ PrintT(<<"TRACE_MATCHED", n>>)
    /\ n = Len(Tr)
=============================================================================
