---------------------------- MODULE Trace_Config ----------------------------
(* Trace validation for Config (C10): per program (Reset), the projected outcome of every step under every configuration *)
EXTENDS Config, Json, IOUtils

VARIABLES l
Tr == ndJsonDeserialize(IOEnv.TRACE)
Chk(name, c) == IF c THEN TRUE ELSE (PrintT(<<"FAILED", name, l>>) /\ FALSE)

TReset == Tr[l].e = "Reset" /\ NewProgram /\ l' = l + 1
TObs == /\ Tr[l].e = "obs"
        /\ LET ev == Tr[l] IN
             /\ Chk(ev.k, ev.k \notin DOMAIN ref \/ ref[ev.k] = ev.o)
             /\ Observe(ev.c, ev.k, ev.o)
        /\ l' = l + 1
TNext == l <= Len(Tr) /\ (TReset \/ TObs)
TraceSpec == Init /\ l = 1 /\ [][TNext]_<<ref, seen, l>>
TraceAccepted ==
    LET n == TLCGet("stats").diameter - 1 IN
    /\ PrintT(<<"TRACE_MATCHED", n>>)
    /\ n = Len(Tr)
=============================================================================
