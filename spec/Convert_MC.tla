---------------------------- MODULE Convert_MC ----------------------------
EXTENDS Convert, FiniteSets
VARIABLES st
Cls == {"in", "out", "exempt"}
Cases == {[s |-> s, d |-> d, f |-> f, c |-> c] : s \in BOOLEAN, d \in BOOLEAN, f \in {1, 2, 5}, c \in [1..3 -> Cls]}
Init == st \in Cases
Next == st' \in Cases
Spec == Init /\ [][Next]_st
Exp == <<"a", "b", "c">>
RuleOK ==
    /\ (Rc(st.s, st.d, st.f, st.c) = "NC_ECHAR") = (st.s # st.d)
    /\ (st.s = st.d) => OthersUnaffected(st.f, st.c, Exp, "F")
    /\ (Rc(st.s, st.d, st.f, st.c) = "NC_NOERR") => Delivered(st.s, st.d, st.f, st.c, Exp, "F") = [k \in 1..3 |-> Exp[k]]
    /\ (st.s = st.d /\ st.f < 5 /\ \A k \in 1..3 : st.c[k] # "out") => Rc(st.s, st.d, st.f, st.c) = "NC_NOERR"
=============================================================================
