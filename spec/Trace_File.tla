----------------------------- MODULE Trace_File -----------------------------
(* Trace validation for File (C07, C03, C06, C16): return codes of every define/attribute/rename/mode call,
   the complete schema through the inquiry API after every call (by id and by name), and -- at every point
   where the file is promised up to date -- the schema, record count, layout and data recovered from the bytes
   on disk by the independent decoder, plus the library's own layout reports. *)
EXTENDS File, Json, IOUtils

VARIABLES l, shaRedef,    \* position in the trace; digest of the file when define mode was re-entered
          shaOther        \* digest of the second open file (source / destination of cross-file copies) when it was set up
Tr == ndJsonDeserialize(IOEnv.TRACE)
tvars == <<vars_, l, shaRedef, shaOther>>
Chk(name, c) == IF c THEN TRUE ELSE (PrintT(<<"FAILED", name, l>>) /\ FALSE)
Same(a, b) == ToString(a) = ToString(b)

TypeCode(t) == CASE t = "byte" -> 1 [] t = "char" -> 2 [] t = "short" -> 3 [] t = "int" -> 4 [] t = "float" -> 5
                 [] t = "double" -> 6 [] t = "ubyte" -> 7 [] t = "ushort" -> 8 [] t = "uint" -> 9
                 [] t = "int64" -> 10 [] t = "uint64" -> 11
DefaultFill(t) == CASE t = "byte" -> -127 [] t = "char" -> 0 [] t = "short" -> -32767 [] t = "int" -> "i:-2147483647"
                    [] t = "float" -> "f:9.969209968386869e+36" [] t = "double" -> "f:9.969209968386869e+36"
                    [] t = "ubyte" -> 255 [] t = "ushort" -> 65535 [] t = "uint" -> "i:4294967295"
                    [] t = "int64" -> "i:-9223372036854775806" [] t = "uint64" -> "i:18446744073709551614"
FillOf(v) == LET i == IdxOf(v.atts, "_FillValue") IN IF i # 0 THEN v.atts[i].vals[1] ELSE DefaultFill(v.xtype)
MatchTok(v, tok, val) == tok = U \/ (IF tok = F THEN Same(FillOf(v), val) ELSE Same(tok, val))

AttOf(a) == [name |-> a.norm, xtype |-> a.xtype, n |-> a.n, vals |-> a.vals]

(* the attribute list as the inquiry API / the decoder reports it: [[name, type code, n, vals], ...] *)
AttsMatch(model, seen) ==
    /\ Len(model) = Len(seen)
    /\ \A i \in 1..Len(model) :
          /\ seen[i][1] = model[i].name /\ seen[i][2] = TypeCode(model[i].xtype)
          /\ seen[i][3] = model[i].n /\ Same(seen[i][4], model[i].vals)

SchemaObsOK(s) ==
    /\ Chk("schema.dims", Len(s.dims) = Len(dims') /\ \A i \in 1..Len(dims') :
            s.dims[i][1] = dims'[i].name /\ s.dims[i][2] = (IF dims'[i].len = 0 THEN numrecs' ELSE dims'[i].len))
    /\ Chk("schema.gatts", AttsMatch(gatts', s.gatts))
    /\ Chk("schema.vars", Len(s.vars) = Len(vars') /\ \A i \in 1..Len(vars') :
            /\ s.vars[i].name = vars'[i].name /\ s.vars[i].type = TypeCode(vars'[i].xtype)
            /\ s.vars[i].dimids = vars'[i].dimids /\ AttsMatch(vars'[i].atts, s.vars[i].atts))
    \* lookup by name agrees with lookup by id, for every name the execution has ever used
    /\ Chk("schema.byname", \A k \in 1..Len(s.byname) :
            LET e == s.byname[k] IN
            \* (the name is looked up in the spelling the application used; the model holds the normalised form)
            /\ Same(e.dim, IF IdxOf(dims', e.norm) = 0 THEN "NC_EBADDIM" ELSE IdxOf(dims', e.norm) - 1)
            /\ Same(e.var, IF IdxOf(vars', e.norm) = 0 THEN "NC_ENOTVAR" ELSE IdxOf(vars', e.norm) - 1)
            /\ Len(e.att) = Len(vars') + 1
            /\ Same(e.att[1], IF IdxOf(gatts', e.norm) = 0 THEN "NC_ENOTATT" ELSE IdxOf(gatts', e.norm) - 1)
            /\ \A t \in 1..Len(vars') :
                  Same(e.att[t + 1], IF IdxOf(vars'[t].atts, e.norm) = 0 THEN "NC_ENOTATT" ELSE IdxOf(vars'[t].atts, e.norm) - 1))

(* data of variable i as the decoder lists it (row-major, records outermost) against the model *)
DataMatch(v, dd) ==
    IF IsRecVar(v)
      THEN /\ Len(dd) = numrecs' * RowLen(v)
           /\ \A r \in 1..Len(v.data) : \A k \in 1..RowLen(v) : MatchTok(v, v.data[r][k], dd[(r - 1) * RowLen(v) + k])
      ELSE /\ Len(dd) = RowLen(v)
           /\ \A k \in 1..Len(v.data) : MatchTok(v, v.data[k], dd[k])

DiskObsOK(o) ==
    LET d == o.disk IN
    /\ Chk("disk.decodable", "error" \notin DOMAIN d)      \* the independent decoder could parse the header
    /\ Chk("disk.exists", d.exists = 1)
    /\ Chk("disk.wellformed", d.problems = <<>>)
    /\ Chk("disk.fmt", d.fmt = fmt')
    /\ Chk("disk.numrecs", d.numrecs = numrecs')
    /\ Chk("disk.dims", Len(d.dims) = Len(dims') /\ \A i \in 1..Len(dims') : d.dims[i][1] = dims'[i].name /\ d.dims[i][2] = dims'[i].len)
    /\ Chk("disk.gatts", AttsMatch(gatts', d.gatts))
    /\ Chk("disk.vars", Len(d.vars) = Len(vars') /\ \A i \in 1..Len(vars') :
            /\ d.vars[i].name = vars'[i].name /\ d.vars[i].type = TypeCode(vars'[i].xtype)
            /\ d.vars[i].dimids = vars'[i].dimids /\ AttsMatch(vars'[i].atts, d.vars[i].atts))
    /\ Chk("disk.data", \A i \in 1..Len(vars') : DataMatch(vars'[i], d.vars[i].data))
    \* layout rules of the format: data areas follow the header in definition order within the fixed and the
    \* record section, 4-byte aligned, not overlapping (cdfdecode.layout_problems, part of d.problems), and
    \* the header does not run into the first variable
    /\ Chk("disk.header-before-data", \A i \in 1..Len(d.vars) : d.vars[i].begin >= d.xsz)
    \* the library's own reports equal what is in the file
    /\ ("layout" \in DOMAIN o /\ mode' = "data") => Chk("layout.reports",
            /\ o.layout.hsize = d.xsz
            /\ o.layout.recsize = (IF \E i \in 1..Len(vars') : IsRecVar(vars'[i]) THEN d.recsize ELSE 0)
            /\ Len(o.layout.offs) = Len(d.vars)
            /\ \A i \in 1..Len(d.vars) : o.layout.offs[i] = d.vars[i].begin
            /\ (Len(d.vars) > 0 => \A i \in 1..Len(d.vars) : o.layout.hextent <= d.vars[i].begin)
            /\ o.layout.hextent >= d.xsz)

(* C03: the first layout of a new file honours the requested alignments: the first variable starts on a
   multiple of the header/variable alignment, the record section on a multiple of the record alignment *)
AlignOK(ev) ==
    LET a == ev.a  d == ev.obs.disk
        fixedB == {d.vars[i].begin : i \in {j \in 1..Len(d.vars) : ~IsRecVar(vars'[j])}}
        recB   == {d.vars[i].begin : i \in {j \in 1..Len(d.vars) : IsRecVar(vars'[j])}}
        allB   == fixedB \cup recB
        Min(S) == CHOOSE x \in S : \A y \in S : x <= y
    IN  \* the header alignment places the first fixed-size variable; a file with record variables only begins its data at
        \* the record section, which the record alignment (when given) places
        /\ (a.want_h_align > 0 /\ fixedB # {}) => Chk("align.header", Min(fixedB) % a.want_h_align = 0)
        /\ (a.want_h_align > 0 /\ fixedB = {} /\ recB # {} /\ a.want_r_align = 0) => Chk("align.header", Min(recB) % a.want_h_align = 0)
        /\ (a.want_r_align > 0 /\ recB # {}) => Chk("align.record", Min(recB) % a.want_r_align = 0)

ObsOK(ev) ==
    LET o == ev.obs IN
    /\ ("want_h_align" \in DOMAIN ev.a /\ "disk" \in DOMAIN o /\ ev.rc = "NC_NOERR") => AlignOK(ev)
    /\ ("schema" \in DOMAIN o /\ mode' # "closed") => SchemaObsOK(o.schema)
    \* the file is up to date whenever the library is in data mode, and after close
    /\ ("disk" \in DOMAIN o /\ mode' \in {"data", "closed"} /\ exists') => DiskObsOK(o)
    /\ ("exists" \in DOMAIN o) => Chk("exists", o.exists = (IF exists' THEN 1 ELSE 0))
    \* C04: the offsets and the record size the library reports for a foreign file are those of its header
    /\ ("want_offs" \in DOMAIN ev.a /\ "layout" \in DOMAIN o) =>
          Chk("foreign.layout", o.layout.offs = ev.a.want_offs /\ o.layout.recsize = ev.a.want_recsize /\ o.layout.hsize = ev.a.want_hsize)
    \* C03: nothing of a clobbered predecessor survives: the file ends where its own content ends
    /\ ("filesize" \in DOMAIN o /\ "disk" \in DOMAIN o) =>
          LET d == o.disk
              ends == {d.xsz} \cup {IF IsRecVar(vars'[i]) THEN d.vars[i].begin + numrecs' * d.recsize ELSE d.vars[i].begin + d.vars[i].len
                                     : i \in 1..Len(d.vars)}
              End == CHOOSE x \in ends : \A y \in ends : y <= x
          IN Chk("no-trailing-bytes", o.filesize <= End)

TReset ==
    /\ Tr[l].e \in {"Reset", "Header"}
    /\ dims' = <<>> /\ gatts' = <<>> /\ vars' = <<>> /\ numrecs' = 0 /\ mode' = "closed" /\ fresh' = FALSE
    /\ fillmode' = "NOFILL" /\ fmt' = 1 /\ saved' = NoSave /\ exists' = FALSE /\ hist' = <<>>
    /\ shaRedef' = "none" /\ shaOther' = "none" /\ l' = l + 1

(* calls on the SECOND file of an execution (set up as source / destination of cross-file attribute copies): they must
   succeed and do not concern the model; the step marked other_mark records that file's digest *)
IsOther(ev) == "other" \in DOMAIN ev.a
TOtherFile ==
    /\ Tr[l].e \notin {"Reset", "Header"} /\ IsOther(Tr[l])
    /\ Chk("other.rc", Tr[l].rc = "NC_NOERR")
    /\ UNCHANGED <<vars_, shaRedef>>
    /\ shaOther' = IF "other_mark" \in DOMAIN Tr[l].a THEN Tr[l].obs.sha_other ELSE shaOther
    /\ l' = l + 1

TCreate ==
    /\ Tr[l].e = "create" /\ ~IsOther(Tr[l]) /\ Tr[l].rc = "NC_NOERR"
    /\ dims' = <<>> /\ gatts' = <<>> /\ vars' = <<>> /\ numrecs' = 0 /\ mode' = "def" /\ fresh' = TRUE
    /\ fillmode' = "NOFILL" /\ fmt' = Tr[l].a.fmtno /\ saved' = NoSave /\ exists' = TRUE /\ hist' = <<>>
    /\ shaRedef' = "none" /\ UNCHANGED shaOther /\ l' = l + 1

(* C04: a file that some other writer produced: the content the encoder put in is the state of the model *)
TLoad ==
    /\ Tr[l].e = "load"
    /\ LET s == Tr[l].a.st IN
         /\ dims' = s.dims /\ gatts' = s.gatts /\ vars' = s.vars /\ numrecs' = s.numrecs /\ fmt' = s.fmt
    /\ mode' = "closed" /\ fresh' = FALSE /\ fillmode' = "NOFILL" /\ saved' = NoSave /\ exists' = TRUE /\ hist' = <<>>
    /\ shaRedef' = "none" /\ shaOther' = "none" /\ l' = l + 1

TOp ==
    /\ Tr[l].e \notin {"Reset", "Header", "create", "load"} /\ ~IsOther(Tr[l])
    /\ LET ev == Tr[l]  a == ev.a  rc == ev.rc IN
         /\ CASE ev.e = "def_dim"      -> DefDim(a.norm, a.len, rc)
              [] ev.e = "def_var"      -> DefVar(a.norm, a.xtype, a.dims, rc)
              [] ev.e = "put_att"      -> PutAtt(a.v, AttOf(a), rc)
              [] ev.e = "del_att"      -> DelAtt(a.v, a.norm, rc)
              [] ev.e = "rename_att"   -> RenameAtt(a.v, a.norm, a.norm_new, a.oldlen, a.newlen, rc)
              [] ev.e = "rename_var"   -> RenameVar(a.v, a.norm_new, a.oldlen, a.newlen, rc)
              [] ev.e = "rename_dim"   -> RenameDim(a.d, a.norm_new, a.oldlen, a.newlen, rc)
              [] ev.e = "copy_att"     -> IF "src" \in DOMAIN a THEN CopyAttFrom(AttOf(a.src), a.v2, rc)
                                          ELSE IF "to_other" \in DOMAIN a THEN CopyAttTo(a.v, a.norm, rc)
                                          ELSE CopyAtt(a.v, a.norm, a.v2, rc)
              [] ev.e = "noop"         -> Stutter("noop") /\ rc = "NC_NOERR"
              [] ev.e = "set_fill"     -> SetFill(a.fill, rc) /\ (rc = "NC_NOERR" => ev.out.old = fillmode)
              [] ev.e = "def_var_fill" -> DefVarFill(a.v, a.nofill = 1, rc)
              [] ev.e \in {"enddef", "_enddef"} -> Enddef(rc)
              [] ev.e = "redef"        -> Redef(rc)
              [] ev.e = "abort"        -> Abort(rc)
              [] ev.e = "close"        -> Close(rc)
              [] ev.e = "open"         -> Reopen(rc)
              [] ev.e = "put"          -> PutData(a.v, a.rec, a.vals, rc)
              [] ev.e = "fill_var_rec" -> FillRec(a.v, a.rec, rc)
              [] ev.e \in {"begin_indep", "end_indep"} -> Stutter(ev.e) /\ rc = "NC_NOERR"
              [] ev.e = "get"          ->
                    /\ Stutter("get") /\ rc = "NC_NOERR"
                    /\ LET v == vars[a.v + 1]
                           exp == IF IsRecVar(v) THEN v.data[a.rec + 1] ELSE v.data IN
                       Chk("get.buf", Len(ev.out.buf) = Len(exp) /\ \A k \in 1..Len(exp) : MatchTok(v, exp[k], ev.out.buf[k]))
              [] OTHER -> FALSE
         /\ ObsOK(ev)
         \* C06: an aborted redefinition leaves the file byte-for-byte as it was
         /\ shaRedef' = IF ev.e = "redef" /\ rc = "NC_NOERR" /\ "sha" \in DOMAIN ev.obs THEN ev.obs.sha ELSE shaRedef
         /\ (ev.e = "abort" /\ saved.on /\ "sha" \in DOMAIN ev.obs) => Chk("abort.bytes", ev.obs.sha = shaRedef)
         \* a copy INTO this file leaves the other file byte-for-byte as it was
         /\ UNCHANGED shaOther
         /\ ("sha_other" \in DOMAIN ev.obs /\ "other_must_stay" \in DOMAIN a) =>
                Chk("other.file.unchanged", ev.obs.sha_other = shaOther)
    /\ l' = l + 1

TNext == l <= Len(Tr) /\ (TReset \/ TCreate \/ TLoad \/ TOtherFile \/ TOp)
TInit == l = 1 /\ shaRedef = "none" /\ shaOther = "none" /\ dims = <<>> /\ gatts = <<>> /\ vars = <<>> /\ numrecs = 0 /\ mode = "closed"
         /\ fresh = FALSE /\ fillmode = "NOFILL" /\ fmt = 1 /\ saved = NoSave /\ exists = FALSE /\ hist = <<>>
TraceSpec == TInit /\ [][TNext]_tvars
TraceAccepted ==
    LET n == TLCGet("stats").diameter - 1 IN
    /\ PrintT(<<"TRACE_MATCHED", n>>)
    /\ n = Len(Tr)
=============================================================================
