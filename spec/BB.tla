--------------------------------- MODULE BB ---------------------------------
(***************************************************************************)
(* C12.  The burst-buffer driver: writes may be staged in per-process log  *)
(* files; what the application may rely on is                              *)
(*   - a process always reads back its own earlier writes;                 *)
(*   - every wait, flush, sync, redefinition and close makes all earlier   *)
(*     writes of the calling processes (all of them for a collective call) *)
(*     and the resulting record count visible to everyone, on disk too;    *)
(*   - before that, another process' staged write may or may not be seen;  *)
(*   - after close the file holds everything that was written, and the log *)
(*     files are gone unless retention was requested.                      *)
(* With the default driver every write is visible at once: it is one of    *)
(* the behaviours of this specification, so the same program validated     *)
(* under both drivers ends with the same logical content.                  *)
(*                                                                         *)
(* Row 0 is the fixed-size variable F[W]; rows 1..MaxRec are the records   *)
(* 0..MaxRec-1 of the record variable R[t][W].  A write addresses whole    *)
(* rows.  Programs do not write a row twice between two synchronisation    *)
(* points (the documented limitation of the driver).                       *)
(***************************************************************************)
EXTENDS Naturals, Integers, Sequences, FiniteSets, TLC, TLCExt

CONSTANTS N, MaxRec, KeepHist
Ranks == 0..(N - 1)
Rows == 0..MaxRec

VARIABLES
    committed,   \* committed[r+1]: content of row r every process must see (<<>>: never written)
    pend,        \* pend[p]: set of [row, tok] written by p (blocking calls) since its last synchronisation point
    posted,      \* posted[p]: set of [row, tok] of p's nonblocking puts not yet completed by a wait: until then they may or
                 \*            may not have taken effect, for p itself too (they are "earlier writes" only once waited for)
    gcount,      \* record count as of the last collective synchronisation point (what every rank must report at least)
    mine,        \* mine[p]: record count implied by rank p's own completed writes (blocking puts, waited nonblocking puts)
    indep,       \* independent data mode
    closed,
    hist
vars == <<committed, pend, posted, gcount, mine, indep, closed, hist>>
H(r) == IF KeepHist THEN Append(hist, r) ELSE <<r>>
AsSeq(f) == <<>> \o f
Max(a, b) == IF a >= b THEN a ELSE b
SetMax(S) == CHOOSE x \in S : \A y \in S : y <= x

PendRows(p) == {w.row : w \in pend[p]}
PostRows(p) == {w.row : w \in posted[p]}
AllPendRows == UNION {PendRows(p) \cup PostRows(p) : p \in Ranks}
AllPosted == UNION {posted[p] : p \in Ranks}

(* record count implied by a set of rows / by the committed content *)
TopOf(S) == SetMax({0} \cup S)               \* row r >= 1 is record r-1: count = highest row
CommittedRecs == TopOf({r \in 1..MaxRec : committed[r + 1] # <<>>})
Highest == Max(CommittedRecs, TopOf(AllPendRows))

Apply(c, W) == AsSeq([i \in 1..(MaxRec + 1) |-> IF \E w \in W : w.row = i - 1 THEN (CHOOSE w \in W : w.row = i - 1).tok ELSE c[i]])

(* a write of rank p: W is a set of [row, tok]; no row is written twice between synchronisation points *)
Legal(W) == /\ W # {} => \A w \in W : w.row \notin AllPendRows
            /\ \A a, b \in W : a.row = b.row => a = b

(* what rank p may read in row r *)
Readable(p, r) ==
    IF \E w \in pend[p] : w.row = r THEN {(CHOOSE w \in pend[p] : w.row = r).tok}          \* its own write
    ELSE {committed[r + 1]} \cup {w.tok : w \in {x \in UNION {pend[q] : q \in Ranks \ {p}} \cup AllPosted : x.row = r}}

(* the record count rank p may report: at least what is committed and what it wrote itself, at most everything *)
CountOK(p, n) == n >= Max(gcount, mine[p]) /\ n <= Highest

(* the same, evaluated in the successor state (for trace validation; the arguments are not primed) *)
PendRowsN(p) == {w.row : w \in pend'[p]}
PostRowsN == {w.row : w \in UNION {posted'[q] : q \in Ranks}}
CommittedRecsN == TopOf({r \in 1..MaxRec : committed'[r + 1] # <<>>})
CountOKN(p, n) == /\ n >= Max(gcount', mine'[p])
                  /\ n <= Max(CommittedRecsN, TopOf(PostRowsN \cup UNION {PendRowsN(q) : q \in Ranks}))

(***************************************************************************)
(* actions                                                                 *)
(***************************************************************************)
(* collective put (blocking or nonblocking post -- the driver logs both at once): WS[p] is rank p's write set *)
CollPut(WS) ==
    /\ ~closed /\ ~indep
    /\ Legal(UNION {WS[p] : p \in Ranks}) /\ \A p, q \in Ranks : p # q => {w.row : w \in WS[p]} \cap {w.row : w \in WS[q]} = {}
    /\ pend' = TLCEval([p \in Ranks |-> pend[p] \cup WS[p]])
    /\ mine' = TLCEval([p \in Ranks |-> Max(mine[p], TopOf({w.row : w \in WS[p]}))])
    /\ UNCHANGED <<committed, posted, gcount, indep, closed>>
    /\ hist' = H([c |-> "coll_put", WS |-> TLCEval(WS)])

IndepPut(p, W) ==
    /\ ~closed /\ indep /\ Legal(W)
    /\ pend' = [pend EXCEPT ![p] = @ \cup W]
    /\ mine' = [mine EXCEPT ![p] = Max(@, TopOf({w.row : w \in W}))]
    /\ UNCHANGED <<committed, posted, gcount, indep, closed>>
    /\ hist' = H([c |-> "indep_put", p |-> p, W |-> W])

(* a post in either mode (iput is not collective) *)
Post(p, W) ==
    /\ ~closed /\ Legal(W)
    /\ posted' = [posted EXCEPT ![p] = @ \cup W]
    /\ UNCHANGED <<committed, pend, gcount, mine, indep, closed>>
    /\ hist' = H([c |-> "post", p |-> p, W |-> W])

(* reads change nothing the application may rely on *)
Get(name) ==
    /\ ~closed /\ UNCHANGED <<committed, pend, posted, gcount, mine, indep, closed>>
    /\ hist' = H([c |-> name])

(* collective synchronisation point: wait_all, flush, sync, redef+enddef, close(+reopen), leaving independent mode *)
SyncAll(name) ==
    /\ ~closed
    /\ name \in {"wait_all", "flush", "sync", "redef_enddef", "reopen", "close"}
    /\ name \in {"wait_all", "flush", "sync"} => ~indep
    \* a file cannot be closed with nonblocking requests outstanding
    /\ name \in {"close", "reopen"} => AllPosted = {}
    /\ LET done == IF name = "wait_all" THEN AllPosted ELSE {}
           c2 == Apply(committed, done \cup UNION {pend[p] : p \in Ranks}) IN
         /\ committed' = c2
         /\ gcount' = TopOf({r \in 1..MaxRec : c2[r + 1] # <<>>})
         /\ posted' = IF name = "wait_all" THEN TLCEval([p \in Ranks |-> {}]) ELSE posted
    /\ pend' = TLCEval([p \in Ranks |-> {}])
    /\ UNCHANGED mine
    /\ indep' = IF name \in {"redef_enddef", "reopen", "close"} THEN FALSE ELSE indep
    /\ closed' = (name = "close")
    /\ hist' = H([c |-> name])

(* independent synchronisation point of one rank: wait (completes its nonblocking puts too), flush in independent mode.
   The data reaches the file; the other processes learn the record count at the next collective synchronisation. *)
SyncOne(p, name) ==
    /\ ~closed /\ indep /\ name \in {"wait", "flush"}
    /\ committed' = Apply(committed, pend[p] \cup (IF name = "wait" THEN posted[p] ELSE {}))
    /\ pend' = [pend EXCEPT ![p] = {}]
    /\ posted' = IF name = "wait" THEN [posted EXCEPT ![p] = {}] ELSE posted
    /\ mine' = IF name = "wait" THEN [mine EXCEPT ![p] = Max(@, TopOf(PostRows(p)))] ELSE mine
    /\ UNCHANGED <<gcount, indep, closed>>
    /\ hist' = H([c |-> name, p |-> p])

(* entering and leaving independent data mode are not among the documented synchronisation points *)
EndIndep ==
    /\ ~closed /\ indep /\ indep' = FALSE
    /\ UNCHANGED <<committed, pend, posted, gcount, mine, closed>>
    /\ hist' = H([c |-> "end_indep"])

BeginIndep ==
    /\ ~closed /\ ~indep /\ indep' = TRUE
    /\ UNCHANGED <<committed, pend, posted, gcount, mine, closed>>
    /\ hist' = H([c |-> "begin_indep"])

Init == /\ committed = AsSeq([i \in 1..(MaxRec + 1) |-> <<>>]) /\ pend = TLCEval([p \in Ranks |-> {}]) /\ posted = TLCEval([p \in Ranks |-> {}])
        /\ gcount = 0 /\ mine = TLCEval([p \in Ranks |-> 0])
        /\ indep = FALSE /\ closed = FALSE /\ hist = <<>>

(***************************************************************************)
(* properties of the design                                                *)
(***************************************************************************)
(* nothing written is ever lost: a row holds its last written content either committed or in exactly one log *)
NoDoublePending == /\ \A p, q \in Ranks : p # q => (PendRows(p) \cup PostRows(p)) \cap (PendRows(q) \cup PostRows(q)) = {}
                   /\ \A p \in Ranks : PendRows(p) \cap PostRows(p) = {}
(* after a collective synchronisation point nothing is pending: everybody reads the same *)
SyncClean == [][hist' # <<>> /\ hist'[Len(hist')].c \in {"wait_all", "flush", "sync", "redef_enddef", "reopen", "close"}
                  /\ "p" \notin DOMAIN hist'[Len(hist')]
                  => (\A p \in Ranks : pend'[p] = {}) /\ \A p \in Ranks, r \in Rows : r \notin PostRowsN => Cardinality(Readable(p, r)') = 1]_vars
(* a process always reads its own write *)
OwnWrites == \A p \in Ranks : \A w \in pend[p] : Readable(p, w.row) = {w.tok}
(* committed content only grows *)
Monotone == [][\A r \in Rows : committed[r + 1] # <<>> => committed'[r + 1] # <<>>]_vars
=============================================================================
